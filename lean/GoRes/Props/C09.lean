import GoRes.Model.Subs
import GoRes.Lemmas.Subs
/-! # C09 — subscriptions cover exactly the owned resources; reset announces them

Theorems about the model of `setDefaultOwnership` / `subscribe` (Model/Subs.lean). -/
namespace GoRes.Props.C09
open GoRes GoRes.Subs

/-- default ownership: the service name and everything below it, everything when the name is
empty, and only for the handler kinds actually registered; explicit lists are used as given -/
theorem default_ownership (c : Cfg) :
    ownership c =
      (match c.resources with
        | some r => r
        | none => if c.hasRes then (if c.name.isEmpty then [[Ch.gt]] else [c.name, c.name ++ [Ch.dot, Ch.gt]]) else [],
       match c.access with
        | some a => a
        | none => if c.hasAccess then (if c.name.isEmpty then [[Ch.gt]] else [c.name, c.name ++ [Ch.dot, Ch.gt]]) else []) := by
  simp only [ownership, defaultPatterns]; rfl

/-- **no subscription is redundant**: no subscribed subject is matched by a different
subscribed subject (for *every* ownership configuration, valid or not) -/
theorem irredundant (c : Cfg) (subs : List Str) (h : subscribe c = some subs)
    (i j : Nat) (hi : i < subs.length) (hj : j < subs.length) (hne : i ≠ j) :
    Pattern.matches subs[j] subs[i] = false := by
  have he := subscribe_eq h
  subst he
  simp only [List.length_map] at hi hj
  simp only [List.getElem_map]
  exact keptIdx_irredundant _ i j hi hj hne

/-- an owned pattern is well-formed: non-empty, made of literal tokens, `*` and a trailing `>` -/
def ownedOk (p : Str) : Prop :=
  ∃ ts : List Pattern.Tok, ts ≠ [] ∧ Pattern.wfPat ts = true ∧ Pattern.tagsOf ts = [] ∧ p = Pattern.render ts

/-- **coverage at the pattern level**: every request pattern of every owned pattern is matched
by a subscribed subject -/
theorem covers (c : Cfg) (subs : List Str) (h : subscribe c = some subs)
    (hok : ∀ p ∈ (ownership c).1 ++ (ownership c).2, ownedOk p)
    (n : Str) (hn : n ∈ allPatterns (ownership c).1 (ownership c).2) :
    ∃ s ∈ subs, Pattern.matches s n = true := by
  rw [subscribe_eq h]
  exact subs_cover (allPatterns_ok hok) n hn

/-- **coverage of concrete request subjects**: for an owned pattern `p`, a resource name matching
`p` and a method, the subjects `get.<name>`, `call.<name>.<method>`, `auth.<name>.<method>` and
(for access patterns) `access.<name>` are each matched by some subscription -/
theorem covers_requests (c : Cfg) (subs : List Str) (h : subscribe c = some subs)
    (hok : ∀ p ∈ (ownership c).1 ++ (ownership c).2, ownedOk p)
    (p : Str) (hp : p ∈ (ownership c).1) (name method : List Pattern.Tok) (hname : Pattern.isName name = true)
    (hm : Pattern.matches p (Pattern.render name) = true)
    (hmeth : ∃ s, method = [.lit s] ∧ Pattern.litOk s = true) :
    (∃ s ∈ subs, Pattern.matches s (tGet ++ Ch.dot :: Pattern.render name) = true) ∧
    (∃ s ∈ subs, Pattern.matches s (tCall ++ Ch.dot :: Pattern.render (name ++ method)) = true) ∧
    (∃ s ∈ subs, Pattern.matches s (tAuth ++ Ch.dot :: Pattern.render (name ++ method)) = true) := by
  obtain ⟨m, rfl, hmok⟩ := hmeth
  have hall := allPatterns_ok hok
  have hpok : OwnedOk p := hok p (List.mem_append_left _ hp)
  have hsubs : ∀ s ∈ subs, IsPat s := fun s hs =>
    (hall s (subs_subset (subscribe_eq h ▸ hs))).isPat
  -- one request type: the subscription covering the request pattern also matches the subject
  have step : ∀ t ∈ [tGet, tCall, tAuth], ∀ subj : Str, IsPat subj →
      Pattern.matches (reqPattern t p) subj = true → ∃ s ∈ subs, Pattern.matches s subj = true := by
    intro t ht subj hsubj hm'
    have hmem : reqPattern t p ∈ allPatterns (ownership c).1 (ownership c).2 :=
      mem_allPatterns.2 (Or.inl ⟨t, ht, p, hp, rfl⟩)
    obtain ⟨s, hs, hsm⟩ := covers c subs h hok _ hmem
    exact ⟨s, hs, matches_trans_of (hsubs s hs) (hall _ hmem).isPat hsubj hsm hm'⟩
  have hwn := Pattern.wfPat_of_isName hname
  have hname' := isName_append_lit hname hmok
  have hwn' := Pattern.wfPat_of_isName hname'
  have subjPat : ∀ t (ts : List Pattern.Tok), Pattern.litOk t = true → ts ≠ [] → Pattern.wfPat ts = true →
      IsPat (t ++ Ch.dot :: Pattern.render ts) := fun t ts ht hne hw =>
    ⟨.lit t :: ts, wfPat_lit_cons ht hw, render_lit_cons t ts hne⟩
  refine ⟨?_, ?_, ?_⟩
  · exact step tGet (by simp) _ (subjPat _ _ (by decide) (isName_ne_nil hname) hwn)
      (reqPattern_matches_get hpok hname hm)
  · exact step tCall (by simp) _ (subjPat _ _ (by decide) (isName_ne_nil hname') hwn')
      (reqPattern_matches_method (by decide) (by decide) hpok hname hm hmok)
  · exact step tAuth (by simp) _ (subjPat _ _ (by decide) (isName_ne_nil hname') hwn')
      (reqPattern_matches_method (by decide) (by decide) hpok hname hm hmok)

theorem covers_access (c : Cfg) (subs : List Str) (h : subscribe c = some subs)
    (hok : ∀ p ∈ (ownership c).1 ++ (ownership c).2, ownedOk p)
    (p : Str) (hp : p ∈ (ownership c).2) (name : List Pattern.Tok) (hname : Pattern.isName name = true)
    (hm : Pattern.matches p (Pattern.render name) = true) :
    ∃ s ∈ subs, Pattern.matches s (tAccess ++ Ch.dot :: Pattern.render name) = true := by
  have hall := allPatterns_ok hok
  have hpok : OwnedOk p := hok p (List.mem_append_right _ hp)
  have hmem : tAccess ++ Ch.dot :: p ∈ allPatterns (ownership c).1 (ownership c).2 :=
    mem_allPatterns.2 (Or.inr ⟨p, hp, rfl⟩)
  obtain ⟨s, hs, hsm⟩ := covers c subs h hok _ hmem
  have hsp : IsPat s := (hall s (subs_subset (subscribe_eq h ▸ hs))).isPat
  have hwn := Pattern.wfPat_of_isName hname
  have hsubj : IsPat (tAccess ++ Ch.dot :: Pattern.render name) :=
    ⟨.lit tAccess :: name, wfPat_lit_cons (by decide) hwn, render_lit_cons _ _ (isName_ne_nil hname)⟩
  exact ⟨s, hs, matches_trans_of hsp (hall _ hmem).isPat hsubj hsm (accPattern_matches (by decide) hpok hname hm)⟩

/-- **every subscribed subject is a valid NATS subject** -/
theorem subjects_valid (c : Cfg) (subs : List Str) (h : subscribe c = some subs)
    (hok : ∀ p ∈ (ownership c).1 ++ (ownership c).2, ownedOk p) :
    ∀ s ∈ subs, validSubject s = true := by
  intro s hs
  exact validSubject_of (allPatterns_ok hok s (subs_subset (subscribe_eq h ▸ hs)))

/-- the default ownership patterns of a named service are well-formed owned patterns, so the
three theorems above apply to every service with a valid name and no explicit ownership -/
theorem default_ok (name : Str) (ts : List Pattern.Tok) (hts : Pattern.isName ts = true) (hn : name = Pattern.render ts) :
    ∀ p ∈ defaultPatterns name, ownedOk p :=
  defaultPatterns_ok name ts hts hn

theorem default_ok_noname : ∀ p ∈ defaultPatterns [], ownedOk p :=
  defaultPatterns_nil_ok

/-- on well-formed subscription subjects the library's `Matches` is NATS subject matching -/
theorem matches_is_nats (ps ss : List Pattern.Tok) (hp : Pattern.wfPat ps = true) (hs : Pattern.wfPat ss = true)
    (hpt : Pattern.tagsOf ps = []) (hst : Pattern.tagsOf ss = []) (hne : ps ≠ []) (hne' : ss ≠ []) :
    Pattern.matches (Pattern.render ps) (Pattern.render ss) = Subs.covers (Pattern.render ps) (Pattern.render ss) :=
  matches_eq_covers ps ss hp hs hpt hst hne hne'

/-! ## non-vacuity -/
-- "a" = [97], "a.>" = [97,46,62]
example : ownedOk [97, 46, 62] := ⟨[.lit [97], .full], by simp, by decide, by decide, by decide⟩
example : (ownership ⟨[], true, false, none, none⟩) = ([[62]], []) := by decide

section
attribute [local simp] Ch.dot Ch.dollar Ch.star Ch.gt Ch.qmark
set_option linter.unusedSimpArgs false

-- service "a" with resource handlers, default ownership: owned "a", "a.>";
-- "call.a.*" and "auth.a.*" are skipped because "call.a.>" / "auth.a.>" cover them
example : subscribe ⟨[97], true, false, none, none⟩ =
    some [[103, 101, 116, 46, 97],                       -- get.a
          [103, 101, 116, 46, 97, 46, 62],               -- get.a.>
          [99, 97, 108, 108, 46, 97, 46, 62],            -- call.a.>
          [97, 117, 116, 104, 46, 97, 46, 62]] := by     -- auth.a.>
  simp [subscribe, ownership, defaultPatterns, allPatterns, reqPattern, kept, tGet, tCall, tAuth,
    tAccess, Pattern.matches, Pattern.matchesLoop, Pattern.skipTok, List.zipIdx]

-- explicit ownership with a duplicate ("a.>" twice) and a covered pattern ("a.*"), access ">":
-- each subject is subscribed once
example : subscribe ⟨[97], true, true, some [[97, 46, 62], [97, 46, 62], [97, 46, 42]], some [[62]]⟩ =
    some [[103, 101, 116, 46, 97, 46, 62],               -- get.a.>
          [99, 97, 108, 108, 46, 97, 46, 62],            -- call.a.>
          [97, 117, 116, 104, 46, 97, 46, 62],           -- auth.a.>
          [97, 99, 99, 101, 115, 115, 46, 62]] := by     -- access.>
  simp [subscribe, ownership, defaultPatterns, allPatterns, reqPattern, kept, tGet, tCall, tAuth,
    tAccess, Pattern.matches, Pattern.matchesLoop, Pattern.skipTok, List.zipIdx]

-- nothing registered: "no resources to serve"
example : subscribe ⟨[97], false, false, none, none⟩ = none := by decide

-- the hypotheses of `covers_requests` are met by the default service "a", owned pattern "a.>",
-- resource "a.b", method "m": "call.a.b.m" is matched by a subscription
example : ∃ subs, subscribe ⟨[97], true, false, none, none⟩ = some subs ∧
    ∃ s ∈ subs, Pattern.matches s (tCall ++ Ch.dot :: Pattern.render [.lit [97], .lit [98], .lit [109]]) = true := by
  refine ⟨_, rfl, ?_⟩
  have hok := default_ok [97] [.lit [97]] (by decide) (by decide)
  exact (covers_requests ⟨[97], true, false, none, none⟩ _ rfl
    (fun p hp => hok p (by simpa [ownership] using hp))
    [97, 46, 62] (by decide) [.lit [97], .lit [98]] [.lit [109]] (by decide)
    (by simp [Pattern.render, joinDots, Pattern.matches, Pattern.matchesLoop, Pattern.skipTok])
    ⟨[109], rfl, by decide⟩).2.1
end

end GoRes.Props.C09
