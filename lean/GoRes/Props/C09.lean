import GoRes.Model.Subs
import GoRes.Lemmas.Subs
/-! # C09 — subscriptions cover exactly the owned resources; reset announces them

Theorems about the model of `setDefaultOwnership` / `subscribe` (Model/Subs.lean). -/
namespace GoRes.Props.C09
open GoRes GoRes.Subs

/-- default ownership: the service name and everything below it, everything when the name is
empty, and only for the handler kinds actually registered; explicit lists are used as given -/
theorem default_ownership (c : Cfg) :
    ownership c =
      (match c.resources with
        | some r => r
        | none => if c.hasRes then (if c.name.isEmpty then [[Ch.gt]] else [c.name, c.name ++ [Ch.dot, Ch.gt]]) else [],
       match c.access with
        | some a => a
        | none => if c.hasAccess then (if c.name.isEmpty then [[Ch.gt]] else [c.name, c.name ++ [Ch.dot, Ch.gt]]) else []) := by
  simp only [ownership, defaultPatterns]; rfl

/-- **no subscription is redundant**: no subscribed subject is matched by a different
subscribed subject (for *every* ownership configuration, valid or not) -/
theorem irredundant (c : Cfg) (subs : List Str) (h : subscribe c = some subs)
    (i j : Nat) (hi : i < subs.length) (hj : j < subs.length) (hne : i ≠ j) :
    Pattern.matches subs[j] subs[i] = false := by
  sorry

/-- an owned pattern is well-formed: non-empty, made of literal tokens, `*` and a trailing `>` -/
def ownedOk (p : Str) : Prop :=
  ∃ ts : List Pattern.Tok, ts ≠ [] ∧ Pattern.wfPat ts = true ∧ Pattern.tagsOf ts = [] ∧ p = Pattern.render ts

/-- **coverage at the pattern level**: every request pattern of every owned pattern is matched
by a subscribed subject -/
theorem covers (c : Cfg) (subs : List Str) (h : subscribe c = some subs)
    (hok : ∀ p ∈ (ownership c).1 ++ (ownership c).2, ownedOk p)
    (n : Str) (hn : n ∈ allPatterns (ownership c).1 (ownership c).2) :
    ∃ s ∈ subs, Pattern.matches s n = true := by
  sorry

/-- **coverage of concrete request subjects**: for an owned pattern `p`, a resource name matching
`p` and a method, the subjects `get.<name>`, `call.<name>.<method>`, `auth.<name>.<method>` and
(for access patterns) `access.<name>` are each matched by some subscription -/
theorem covers_requests (c : Cfg) (subs : List Str) (h : subscribe c = some subs)
    (hok : ∀ p ∈ (ownership c).1 ++ (ownership c).2, ownedOk p)
    (p : Str) (hp : p ∈ (ownership c).1) (name method : List Pattern.Tok) (hname : Pattern.isName name = true)
    (hm : Pattern.matches p (Pattern.render name) = true)
    (hmeth : ∃ s, method = [.lit s] ∧ Pattern.litOk s = true) :
    (∃ s ∈ subs, Pattern.matches s (tGet ++ Ch.dot :: Pattern.render name) = true) ∧
    (∃ s ∈ subs, Pattern.matches s (tCall ++ Ch.dot :: Pattern.render (name ++ method)) = true) ∧
    (∃ s ∈ subs, Pattern.matches s (tAuth ++ Ch.dot :: Pattern.render (name ++ method)) = true) := by
  sorry

theorem covers_access (c : Cfg) (subs : List Str) (h : subscribe c = some subs)
    (hok : ∀ p ∈ (ownership c).1 ++ (ownership c).2, ownedOk p)
    (p : Str) (hp : p ∈ (ownership c).2) (name : List Pattern.Tok) (hname : Pattern.isName name = true)
    (hm : Pattern.matches p (Pattern.render name) = true) :
    ∃ s ∈ subs, Pattern.matches s (tAccess ++ Ch.dot :: Pattern.render name) = true := by
  sorry

/-- **every subscribed subject is a valid NATS subject** -/
theorem subjects_valid (c : Cfg) (subs : List Str) (h : subscribe c = some subs)
    (hok : ∀ p ∈ (ownership c).1 ++ (ownership c).2, ownedOk p) :
    ∀ s ∈ subs, validSubject s = true := by
  sorry

/-- the default ownership patterns of a named service are well-formed owned patterns, so the
three theorems above apply to every service with a valid name and no explicit ownership -/
theorem default_ok (name : Str) (ts : List Pattern.Tok) (hts : Pattern.isName ts = true) (hn : name = Pattern.render ts) :
    ∀ p ∈ defaultPatterns name, ownedOk p := by
  sorry

theorem default_ok_noname : ∀ p ∈ defaultPatterns [], ownedOk p := by
  sorry

/-- on well-formed subscription subjects the library's `Matches` is NATS subject matching -/
theorem matches_is_nats (ps ss : List Pattern.Tok) (hp : Pattern.wfPat ps = true) (hs : Pattern.wfPat ss = true)
    (hpt : Pattern.tagsOf ps = []) (hst : Pattern.tagsOf ss = []) (hne : ps ≠ []) (hne' : ss ≠ []) :
    Pattern.matches (Pattern.render ps) (Pattern.render ss) = Subs.covers (Pattern.render ps) (Pattern.render ss) := by
  sorry

/-! ## non-vacuity -/
-- "a" = [97], "a.>" = [97,46,62]
example : ownedOk [97, 46, 62] := ⟨[.lit [97], .full], by simp, by decide, by decide, by decide⟩
example : (ownership ⟨[], true, false, none, none⟩) = ([[62]], []) := by decide

end GoRes.Props.C09
