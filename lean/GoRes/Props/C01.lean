import GoRes.Model.Discipline
import GoRes.Model.Pool
import GoRes.Lemmas.Pool
/-! # C01 — at most one callback of a worker group executes at any instant

Every state reachable by ANY sequence of actions of the pool model — any number of
workers, submitters, groups, start/stop/start cycles, every interleaving at the granularity
of the service mutex, even spurious wake-ups — has at most one running callback per group. -/
namespace GoRes.Props.C01
open GoRes.Pool

/-- **mutual exclusion per group** (group 0 = Parallel is exempt) -/
theorem mutex (acts : List Act) (s : St) (h : run init acts = some s)
    (i j : Nat) (w1 w2 : Work) (c1 c2 : Nat)
    (hi : s.workers[i]? = some (.running w1 c1)) (hj : s.workers[j]? = some (.running w2 c2))
    (hw : w1.wid = w2.wid) (hne : w1.wid ≠ 0) : i = j := by
  have hI := Inv.reachable h
  have hle : cntW w1.wid s.workers ≤ 1 := by have := hI.le _ hne; omega
  exact index_unique_of_countP_le_one hle hi hj (by simp [isWS, wsWid]) (by simp [isWS, wsWid, hw])

/-- the executable check used by the trace validator agrees -/
theorem mutexOk_reachable (acts : List Act) (s : St) (h : run init acts = some s) : mutexOk s = true := by
  have hI := Inv.reachable h
  unfold mutexOk runningNow
  exact decide_eq_true (nodup_runningWids fun g hg => by have := hI.le g hg; omega)

/-- a group has at most one live work item (queued, or owned by a running worker), and a live
item is registered in `rwork` — the invariant behind mutual exclusion -/
theorem one_live_item (acts : List Act) (s : St) (h : run init acts = some s) (g : Nat) (hg : g ≠ 0) :
    cnt g s ≤ 1 ∧ (1 ≤ cnt g s → s.wq.isSome → g ∈ s.rwork) := by
  have hI := Inv.reachable h
  refine ⟨hI.le g hg, fun h1 hq => ?_⟩
  obtain ⟨q, hq⟩ := Option.isSome_iff_exists.mp hq
  have := (hI.core q hq).le g hg
  refine ((hI.core q hq).mem g hg).mpr ?_
  rw [cnt_eq, hq] at h1
  simp only [Option.getD_some] at h1
  omega

/-! ## the premise of the model, re-proved against the source on every run

The model's actions are critical sections of the service mutex: that is only a faithful picture of
the Go code if the queue state (`rwork`, `workqueue`, `workbuf`, `work.queue`) is never touched
without the mutex.  `Generated/Access.lean` is rewritten from /repo's source by the extractor. -/

open GoRes.Discipline in
/-- **every access to the queue state is made with the service mutex held**, and none of them is an
atomic operation mixed in -/
theorem queue_state_guarded :
    ∀ a ∈ Generated.accesses, poolFields.contains (Acc.strct a, Acc.field a) = true →
      Acc.lock a = "L" ∧ (Acc.kind a = "r" ∨ Acc.kind a = "w") := by
  decide +kernel

/-- `processQueue`, which the model treats as part of the worker's critical section, is entered
with the mutex held at every call site -/
theorem process_queue_entered_locked :
    Generated.entryLocked.contains "work.processQueue" = true ∧
    ∀ c ∈ Generated.calls, c.1 = "work.processQueue" → c.2.2 = "L" := by
  decide +kernel

/-! ## non-vacuity: two workers run different groups while a third item is queued -/
example : ∃ s, run init [.serve 2, .subCheck 1 7 100 true, .subLock 1, .subSignal 1, .wStart 0,
    .subCheck 2 8 101 true, .subLock 2, .subSignal 2, .wStart 1, .subCheck 3 7 102 true, .subLock 3] = some s ∧
    s.workers = [.running ⟨7, [102]⟩ 100, .running ⟨8, []⟩ 101] := by
  refine ⟨_, rfl, ?_⟩; rfl

end GoRes.Props.C01
