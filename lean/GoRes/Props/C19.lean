import GoRes.Model.SendReq
import GoRes.Lemmas.SendReq
/-! # C19 — SendRequest returns the first real response within the extended deadline
(partial: the `select` loop is modelled as a function of the timed message history; scheduler
latency, timer resolution and the tie "message exactly at the deadline" are outside the model) -/
namespace GoRes.Props.C19
open GoRes GoRes.SendReq

/-- the deadline after the messages `pre` have all been handled in time without producing a
response (`none`: the request has timed out or returned on the way) -/
def deadlineAfter : Int → List (Int × Str) → Option Int
  | dl, [] => some dl
  | dl, (t, d) :: rest =>
    if t ≥ dl then none
    else match classify d with
      | .response _ => none
      | .extend ms => deadlineAfter (t + ms) rest
      | .ignored => deadlineAfter dl rest

/-! ### general forms (arbitrary current deadline and accumulated extensions) -/

theorem deadlineAfter_late (dl t : Int) (d : Str) (rest : List (Int × Str)) (h : t ≥ dl) :
    deadlineAfter dl ((t, d) :: rest) = none := by
  simp [deadlineAfter, h]

theorem deadlineAfter_response (dl t : Int) (d : Str) (rest : List (Int × Str))
    (hr : isResponse d = true) : deadlineAfter dl ((t, d) :: rest) = none := by
  by_cases h : t ≥ dl
  · exact deadlineAfter_late _ _ _ _ h
  · simp [deadlineAfter, h, classify_of_isResponse hr]

theorem deadlineAfter_extend (dl t ms : Int) (d : Str) (rest : List (Int × Str)) (ht : t < dl)
    (hc : classify d = .extend ms) : deadlineAfter dl ((t, d) :: rest) = deadlineAfter (t + ms) rest := by
  have : ¬ t ≥ dl := by omega
  simp [deadlineAfter, this, hc]

theorem deadlineAfter_ignored (dl t : Int) (d : Str) (rest : List (Int × Str)) (ht : t < dl)
    (hc : classify d = .ignored) : deadlineAfter dl ((t, d) :: rest) = deadlineAfter dl rest := by
  have : ¬ t ≥ dl := by omega
  simp [deadlineAfter, this, hc]

theorem first_real_response_gen (dl0 : Int) (exts : List Int) (pre : List (Int × Str)) (t : Int) (d : Str)
    (later : List (Int × Str)) (dl : Int) (hpre : deadlineAfter dl0 pre = some dl) (ht : t < dl)
    (hd : isResponse d = true) : (loop dl0 exts (pre ++ (t, d) :: later)).1 = .response d := by
  induction pre generalizing dl0 exts with
  | nil =>
    simp only [deadlineAfter, Option.some.injEq] at hpre
    subst hpre
    simp [loop_response _ _ _ _ _ ht hd]
  | cons m rest ih =>
    obtain ⟨t', d'⟩ := m
    by_cases hl : t' ≥ dl0
    · rw [deadlineAfter_late _ _ _ _ hl] at hpre; cases hpre
    · have hl' : t' < dl0 := by omega
      cases hc : classify d' with
      | response x =>
        obtain ⟨_, hr⟩ := classify_response hc
        rw [deadlineAfter_response _ _ _ _ hr] at hpre; cases hpre
      | extend ms =>
        rw [deadlineAfter_extend _ _ _ _ _ hl' hc] at hpre
        rw [List.cons_append, loop_extend _ _ _ _ _ _ hl' hc]
        exact ih _ _ hpre
      | ignored =>
        rw [deadlineAfter_ignored _ _ _ _ hl' hc] at hpre
        rw [List.cons_append, loop_ignored _ _ _ _ _ hl' hc]
        exact ih _ _ hpre

/-- the loop either times out or returns a message with a witnessing decomposition of the history -/
theorem loop_timeout_or_response (dl0 : Int) (exts : List Int) (hist : List (Int × Str)) :
    (loop dl0 exts hist).1 = .timeout ∨
      ∃ pre t d later dl, hist = pre ++ (t, d) :: later ∧ deadlineAfter dl0 pre = some dl ∧ t < dl ∧
        isResponse d = true := by
  induction hist generalizing dl0 exts with
  | nil => left; rfl
  | cons m rest ih =>
    obtain ⟨t', d'⟩ := m
    by_cases hl : t' ≥ dl0
    · left; rw [loop_late _ _ _ _ _ hl]
    · have hl' : t' < dl0 := by omega
      cases hc : classify d' with
      | response x =>
        obtain ⟨_, hr⟩ := classify_response hc
        right; exact ⟨[], t', d', rest, dl0, rfl, rfl, hl', hr⟩
      | extend ms =>
        rw [loop_extend _ _ _ _ _ _ hl' hc]
        rcases ih (t' + ms) (exts ++ [ms]) with h | ⟨pre, t, d, later, dl, rfl, h2, h3, h4⟩
        · left; exact h
        · right
          exact ⟨(t', d') :: pre, t, d, later, dl, rfl,
            by rw [deadlineAfter_extend _ _ _ _ _ hl' hc]; exact h2, h3, h4⟩
      | ignored =>
        rw [loop_ignored _ _ _ _ _ hl' hc]
        rcases ih dl0 exts with h | ⟨pre, t, d, later, dl, rfl, h2, h3, h4⟩
        · left; exact h
        · right
          exact ⟨(t', d') :: pre, t, d, later, dl, rfl,
            by rw [deadlineAfter_ignored _ _ _ _ hl' hc]; exact h2, h3, h4⟩

theorem extensions_reported_gen (dl0 : Int) (exts : List Int) (pre : List (Int × Str)) (dl : Int)
    (h : deadlineAfter dl0 pre = some dl) :
    (loop dl0 exts pre).2 =
      exts ++ pre.filterMap (fun m => match classify m.2 with | .extend ms => some ms | _ => none) := by
  induction pre generalizing dl0 exts with
  | nil => simp [loop_nil]
  | cons m rest ih =>
    obtain ⟨t', d'⟩ := m
    by_cases hl : t' ≥ dl0
    · rw [deadlineAfter_late _ _ _ _ hl] at h; cases h
    · have hl' : t' < dl0 := by omega
      cases hc : classify d' with
      | response x =>
        obtain ⟨_, hr⟩ := classify_response hc
        rw [deadlineAfter_response _ _ _ _ hr] at h; cases h
      | extend ms =>
        rw [deadlineAfter_extend _ _ _ _ _ hl' hc] at h
        rw [loop_extend _ _ _ _ _ _ hl' hc, ih _ _ h]
        simp [hc]
      | ignored =>
        rw [deadlineAfter_ignored _ _ _ _ hl' hc] at h
        rw [loop_ignored _ _ _ _ _ hl' hc, ih _ _ h]
        simp [hc]

/-- **first real response**: the first message that is not a pre-response and arrives before the
current (possibly extended) deadline is what is returned — whatever comes later is ignored -/
theorem first_real_response (timeout : Int) (pre : List (Int × Str)) (t : Int) (d : Str) (later : List (Int × Str))
    (dl : Int) (hpre : deadlineAfter timeout pre = some dl) (ht : t < dl) (hd : isResponse d = true) :
    (loop timeout [] (pre ++ (t, d) :: later)).1 = .response d := by
  exact first_real_response_gen timeout [] pre t d later dl hpre ht hd

/-- **each timeout pre-response restarts the deadline with the announced duration** and notifies
the extension callbacks with it -/
theorem extension_restarts (deadline : Int) (exts : List Int) (t ms : Int) (d : Str) (rest : List (Int × Str))
    (ht : t < deadline) (hc : classify d = .extend ms) :
    loop deadline exts ((t, d) :: rest) = loop (t + ms) (exts ++ [ms]) rest := by
  exact loop_extend deadline exts t ms d rest ht hc

/-- other pre-responses (no `timeout` key, or not a number) change nothing -/
theorem other_pre_ignored (deadline : Int) (exts : List Int) (t : Int) (d : Str) (rest : List (Int × Str))
    (ht : t < deadline) (hc : classify d = .ignored) :
    loop deadline exts ((t, d) :: rest) = loop deadline exts rest := by
  exact loop_ignored deadline exts t d rest ht hc

/-- **timeout exactly when no response arrives before the current deadline** -/
theorem timeout_iff (timeout : Int) (hist : List (Int × Str)) :
    (loop timeout [] hist).1 = .timeout ↔
      ¬ ∃ pre t d later dl, hist = pre ++ (t, d) :: later ∧ deadlineAfter timeout pre = some dl ∧ t < dl ∧ isResponse d = true := by
  constructor
  · rintro h ⟨pre, t, d, later, dl, rfl, h2, h3, h4⟩
    rw [first_real_response_gen timeout [] pre t d later dl h2 h3 h4] at h
    cases h
  · intro h
    rcases loop_timeout_or_response timeout [] hist with h' | h'
    · exact h'
    · exact absurd h' h

/-- the callbacks are told exactly the durations of the extensions that took effect, in order -/
theorem extensions_reported (timeout : Int) (pre : List (Int × Str)) (dl : Int) (h : deadlineAfter timeout pre = some dl) :
    (loop timeout [] pre).2 = pre.filterMap (fun m => match classify m.2 with | .extend ms => some ms | _ => none) := by
  simpa using extensions_reported_gen timeout [] pre dl h

/-- **marshal, subscribe and publish failures are internal errors returned without waiting**
(no message of the history is looked at, no callback runs) -/
theorem failures_immediate (s : Setup) (hist : List (Int × Str))
    (h : s.marshalOk = false ∨ s.subscribeOk = false ∨ s.publishOk = false) :
    (sendRequest s hist).outcome = .internalError ∧ (sendRequest s hist).extensions = [] := by
  rcases h with h | h | h
  · simp [sendRequest, h]
  · cases hm : s.marshalOk <;> simp [sendRequest, h, hm]
  · cases hm : s.marshalOk <;> cases hs : s.subscribeOk <;> simp [sendRequest, h, hm, hs]

/-- **on every return path the inbox subscription is released** -/
theorem unsubscribed_on_every_path (s : Setup) (hist : List (Int × Str)) :
    (sendRequest s hist).subscribed = true → (sendRequest s hist).unsubscribed = true := by
  unfold sendRequest
  cases s.marshalOk <;> cases s.subscribeOk <;> cases s.publishOk <;> simp

/-- **pre-response recognition**: a message is a (final) response iff it is empty or does not
start with a letter; `timeout:"<digits>"` is an extension by that many milliseconds -/
theorem response_iff_not_letter (c : Nat) (r : Str) (hc : c < 256) :
    isResponse (c :: r) = !((65 ≤ c && c ≤ 90) || (97 ≤ c && c ≤ 122)) := by
  rw [isResponse_cons]; exact or32_not_letter c hc

theorem empty_is_response : isResponse [] = true := by
  rfl

theorem timeout_pre_response (digits : Str) (hne : digits ≠ []) (hd : ∀ c ∈ digits, 48 ≤ c ∧ c ≤ 57) (hlen : digits.length ≤ 18) :
    ∃ ms : Int, 0 ≤ ms ∧ classify (b!"timeout:\"" ++ digits ++ [34]) = .extend ms := by
  have hd' : ∀ c ∈ digits, c ≠ 34 ∧ c ≠ 92 := by
    intro c hc; have := hd c hc; omega
  refine ⟨((digits.foldl (fun acc c => acc * 10 + (c - 48)) 0 : Nat) : Int), Int.natCast_nonneg _, ?_⟩
  have hnr : isResponse (b!"timeout:\"" ++ digits ++ [34]) = false := by
    simp [isResponse]
  unfold classify
  rw [hnr, tagLookup_timeout _ digits hd']
  simp [atoi_digits digits hne hd hlen]

/-! ## non-vacuity -/
-- timeout 100; at 30 `timeout:"200"`, at 150 a response: returned, although 150 > 100
example : sendRequest ⟨true, true, true, 100⟩ [(30, b!"timeout:\"200\""), (150, b!"{\"result\":1}"), (160, b!"{\"result\":2}")] =
    ⟨.response b!"{\"result\":1}", [200], true, true⟩ := by decide

end GoRes.Props.C19
