import GoRes.Model.SendReq
import GoRes.Lemmas.SendReq
/-! # C19 — SendRequest returns the first real response within the extended deadline
(partial: the `select` loop is modelled as a function of the timed message history; scheduler
latency, timer resolution and the tie "message exactly at the deadline" are outside the model) -/
namespace GoRes.Props.C19
open GoRes GoRes.SendReq

/-- the deadline after the messages `pre` have all been handled in time without producing a
response (`none`: the request has timed out or returned on the way) -/
def deadlineAfter : Int → List (Int × Str) → Option Int
  | dl, [] => some dl
  | dl, (t, d) :: rest =>
    if t ≥ dl then none
    else match classify d with
      | .response _ => none
      | .extend ms => deadlineAfter (t + ms) rest
      | .ignored => deadlineAfter dl rest

/-- **first real response**: the first message that is not a pre-response and arrives before the
current (possibly extended) deadline is what is returned — whatever comes later is ignored -/
theorem first_real_response (timeout : Int) (pre : List (Int × Str)) (t : Int) (d : Str) (later : List (Int × Str))
    (dl : Int) (hpre : deadlineAfter timeout pre = some dl) (ht : t < dl) (hd : isResponse d = true) :
    (loop timeout [] (pre ++ (t, d) :: later)).1 = .response d := by
  sorry

/-- **each timeout pre-response restarts the deadline with the announced duration** and notifies
the extension callbacks with it -/
theorem extension_restarts (deadline : Int) (exts : List Int) (t ms : Int) (d : Str) (rest : List (Int × Str))
    (ht : t < deadline) (hc : classify d = .extend ms) :
    loop deadline exts ((t, d) :: rest) = loop (t + ms) (exts ++ [ms]) rest := by
  sorry

/-- other pre-responses (no `timeout` key, or not a number) change nothing -/
theorem other_pre_ignored (deadline : Int) (exts : List Int) (t : Int) (d : Str) (rest : List (Int × Str))
    (ht : t < deadline) (hc : classify d = .ignored) :
    loop deadline exts ((t, d) :: rest) = loop deadline exts rest := by
  sorry

/-- **timeout exactly when no response arrives before the current deadline** -/
theorem timeout_iff (timeout : Int) (hist : List (Int × Str)) :
    (loop timeout [] hist).1 = .timeout ↔
      ¬ ∃ pre t d later dl, hist = pre ++ (t, d) :: later ∧ deadlineAfter timeout pre = some dl ∧ t < dl ∧ isResponse d = true := by
  sorry

/-- the callbacks are told exactly the durations of the extensions that took effect, in order -/
theorem extensions_reported (timeout : Int) (pre : List (Int × Str)) (dl : Int) (h : deadlineAfter timeout pre = some dl) :
    (loop timeout [] pre).2 = pre.filterMap (fun m => match classify m.2 with | .extend ms => some ms | _ => none) := by
  sorry

/-- **marshal, subscribe and publish failures are internal errors returned without waiting**
(no message of the history is looked at, no callback runs) -/
theorem failures_immediate (s : Setup) (hist : List (Int × Str))
    (h : s.marshalOk = false ∨ s.subscribeOk = false ∨ s.publishOk = false) :
    (sendRequest s hist).outcome = .internalError ∧ (sendRequest s hist).extensions = [] := by
  sorry

/-- **on every return path the inbox subscription is released** -/
theorem unsubscribed_on_every_path (s : Setup) (hist : List (Int × Str)) :
    (sendRequest s hist).subscribed = true → (sendRequest s hist).unsubscribed = true := by
  sorry

/-- **pre-response recognition**: a message is a (final) response iff it is empty or does not
start with a letter; `timeout:"<digits>"` is an extension by that many milliseconds -/
theorem response_iff_not_letter (c : Nat) (r : Str) (hc : c < 256) :
    isResponse (c :: r) = !((65 ≤ c && c ≤ 90) || (97 ≤ c && c ≤ 122)) := by
  sorry

theorem empty_is_response : isResponse [] = true := by
  sorry

theorem timeout_pre_response (digits : Str) (hne : digits ≠ []) (hd : ∀ c ∈ digits, 48 ≤ c ∧ c ≤ 57) (hlen : digits.length ≤ 18) :
    ∃ ms : Int, 0 ≤ ms ∧ classify (b!"timeout:\"" ++ digits ++ [34]) = .extend ms := by
  sorry

/-! ## non-vacuity -/
-- timeout 100; at 30 `timeout:"200"`, at 150 a response: returned, although 150 > 100
example : sendRequest ⟨true, true, true, 100⟩ [(30, b!"timeout:\"200\""), (150, b!"{\"result\":1}"), (160, b!"{\"result\":2}")] =
    ⟨.response b!"{\"result\":1}", [200], true, true⟩ := by decide

end GoRes.Props.C19
