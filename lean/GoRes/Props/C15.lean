import GoRes.Model.QueryEvent
import GoRes.Lemmas.QueryEvent
/-! # C15 — query events answer each query once, end with nil once, and leak nothing

The callbacks of one query event are serialised in the resource's group by the worker pool
(C01/C02: `handleQueryRequest` and the expiry callback both go through `runWith` with the
resource's group), so the life of a query event is a sequence of events. -/
namespace GoRes.Props.C15
open GoRes GoRes.QueryEvent

def responses (l : List Reply) : List Reply := l.filter isResponse

/-- **every query request on an active query event gets exactly one response**, whatever the
callback does: replies once or several times, only adds events, does nothing, panics with
anything before or after replying, uses the wrong resource type, sends pre-responses -/
theorem one_reply_per_query_request (typ : Nat) (payload : Payload) (script : List QAct) :
    (responses (handle typ payload script)).length = 1 := by
  cases payload with
  | bad => rfl
  | empty => rfl
  | noQuery => rfl
  | ok =>
    have key : ∀ s : RSt, RInv s →
        (responses (if s.replied then s.out
          else if s.nEvents = 0 then s.out ++ [.events 0]
          else if s.eventsOk then s.out ++ [.events s.nEvents]
          else s.out ++ [.error internal])).length = 1 := by
      intro s hs
      unfold RInv at hs
      cases hr : s.replied with
      | true => simpa [responses, hr] using hs
      | false =>
        simp only [hr, Bool.false_eq_true, if_false] at hs ⊢
        split
        · simp [responses, List.filter_append, hs]; rfl
        · split <;> (simp [responses, List.filter_append, hs]; rfl)
    have hinv := rinv_runQ typ script {} rinv_init
    simp only [handle]
    cases hq : runQ typ {} script with
    | cont s => rw [hq] at hinv; exact key s hinv
    | panic s p =>
      rw [hq] at hinv
      exact key _ (rinv_reply s _ (by cases p <;> rfl) hinv).1

/-- **a missing query or a malformed payload is answered with an error** and the callback is
not involved -/
theorem missing_query_is_error (typ : Nat) (payload : Payload) (script : List QAct) (h : payload ≠ .ok) :
    handle typ payload script = [.error internal] := by
  cases payload with
  | ok => exact absurd rfl h
  | bad => rfl
  | empty => rfl
  | noQuery => rfl

/-- a callback that only adds events gets the accumulated events as the response; one that does
nothing gets the empty event list -/
theorem events_response (typ : Nat) (script : List QAct) (s : RSt) (h : runQ typ {} script = .cont s)
    (hr : s.replied = false) (hok : s.eventsOk = true) :
    handle typ .ok script = s.out ++ [.events s.nEvents] := by
  simp only [handle, h, hr, hok, Bool.false_eq_true, if_false, if_true]
  split
  · next h0 => rw [h0]
  · rfl

/-- **the callback is invoked with nil exactly once**: at most once over any history … -/
theorem nil_at_most_once (typ : Nat) (evs : List Ev) : (run typ {} evs).1.nilCalls ≤ 1 := by
  have := (sinv_run typ evs {} sinv_init).1
  rw [this]; split <;> simp

/-- … and exactly once as soon as the expiry has happened -/
theorem nil_once (typ : Nat) (evs : List Ev) (h : Ev.expire ∈ evs) : (run typ {} evs).1.nilCalls = 1 := by
  have := (sinv_run typ evs {} sinv_init).1
  rw [this, run_expire_mem typ evs {} h]; rfl

/-- **never again afterwards**: after the expiry no request reaches the callback and nothing
is published, whatever arrives (late requests delivered after the drain was requested) -/
theorem nothing_after_nil (typ : Nat) (s : St) (h : s.expired = true) (evs : List Ev) :
    (run typ s evs).1 = s ∧ ∀ r ∈ (run typ s evs).2, r = [] := by
  exact run_expired typ s h evs

/-- **everything the query event allocated is released** at the expiry: subscription gone,
listener goroutine gone -/
theorem released (typ : Nat) (evs : List Ev) (h : Ev.expire ∈ evs) :
    (run typ {} evs).1.listener = false ∧ (run typ {} evs).1.subscribed = false := by
  exact (sinv_run typ evs {} sinv_init).2 (run_expire_mem typ evs {} h)

/-- **a failed subscription calls back with nil once and publishes nothing** (and later events find
the query event already expired) -/
theorem failed_subscribe (typ : Nat) (evs : List Ev) :
    failedSubscribe.nilCalls = 1 ∧ failedSubscribe.listener = false ∧
    (run typ failedSubscribe evs).1 = failedSubscribe ∧ ∀ r ∈ (run typ failedSubscribe evs).2, r = [] := by
  have := run_expired typ failedSubscribe rfl evs
  exact ⟨rfl, rfl, this.1, this.2⟩

/-- while active, each request is handled on its own: the replies of a history are the replies of
its requests up to the expiry -/
theorem active_requests_answered (typ : Nat) (s : St) (h : s.expired = false) (payload : Payload) (script : List QAct) :
    (step typ s (.request payload script)).2 = handle typ payload script := by
  simp [step, h]

/-! ## non-vacuity -/
example : handle 2 .ok [.add 0 true, .remove 1, .timeout 100] = [.pre 100, .events 2] := by decide
example : (run 1 {} [.request .ok [.model true, .model true], .expire, .request .ok [.notFound]]).2 = [[.model], [], []] := by decide

end GoRes.Props.C15
