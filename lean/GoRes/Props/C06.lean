import GoRes.Model.Mux
import GoRes.Lemmas.Mux
import GoRes.Lemmas.MuxMount
/-! # C06 — routing returns the most specific matching pattern, params and group

Property theorems about the trie model (`Model/Mux.lean`).  Statements are about
*every* tree reachable by registrations, every pattern, every resource name.
Definitions used only to state the theorems (`Stored`, `ElemsMatch`,
`MoreSpecific`, `Reachable`) are here so that a reader sees exactly what is
claimed; helper lemmas are in `Lemmas/Mux.lean`. -/
namespace GoRes.Props.C06
open GoRes GoRes.Mux

/-- the node stored under pattern `pat` (a list of trie edges) below `n` -/
inductive StoredAt : Node → List Elem → Node → Prop
  | here (n) : StoredAt n [] n
  | lit {n s c pat x} : lookupLit n.lits s = some c → StoredAt c pat x → StoredAt n (.lit s :: pat) x
  | param {n c pat x} : n.param = some c → StoredAt c pat x → StoredAt n (.param :: pat) x
  | wild {n c} : n.wild = some c → StoredAt n [.wild] c

/-- a pattern (as trie edges) matches name tokens: literal = equal, placeholder = any one
token, full wildcard = one or more remaining tokens -/
def ElemsMatch : List Elem → List Str → Prop
  | [], [] => True
  | [.wild], _ :: _ => True
  | .lit s :: ps, t :: ts => s = t ∧ ElemsMatch ps ts
  | .param :: ps, _ :: ts => ElemsMatch ps ts
  | _, _ => False

def elemCls : Elem → Nat
  | .lit _ => 2
  | .param => 1
  | .wild => 0

/-- `a` is strictly more specific than `b`: at the first position where their classes
differ, `a` has the higher class (literal > placeholder > full wildcard) -/
def MoreSpecific : List Elem → List Elem → Prop
  | a :: as, b :: bs => elemCls a > elemCls b ∨ (elemCls a = elemCls b ∧ MoreSpecific as bs)
  | _, _ => False

/-- trees reachable from the empty mux by any sequence of `AddHandler` / `AddListener`
calls with arbitrary arguments (failed calls keep the nodes `fetch` created, as in Go) -/
inductive Reachable : Node → Prop
  | empty : Reachable Node.empty
  | handler {n} (pattern : Str) (id : Nat) (group : Str) (parallel : Bool) :
      Reachable n → Reachable (addHandlerAt n pattern id group parallel).1
  | listener {n} (pattern : Str) (id : Nat) :
      Reachable n → Reachable (addListenerAt n pattern id).1

/-- every `>` node carries a handler: what `ValidateListeners` (run by `Serve`) enforces for
full-wildcard patterns -/
def WildHaveHandlers (root : Node) : Prop :=
  ∀ pat x, StoredAt root pat x → pat.getLast? = some .wild → x.hs.isSome

/-! ## bridge to the function-style notions of `Lemmas/Mux.lean`

`StoredAt` is `getAt` (the model's own path lookup) restricted to paths with `>` last;
`ElemsMatch`/`MoreSpecific` are the same recursions as `EMatch`/`MoreSpec`. -/

theorem elemsMatch_iff (pat : List Elem) (toks : List Str) : ElemsMatch pat toks ↔ EMatch pat toks := by
  fun_induction ElemsMatch pat toks <;> simp_all [EMatch]

theorem elemCls_eq (e : Elem) : elemCls e = eCls e := by cases e <;> rfl

theorem moreSpecific_iff (a b : List Elem) : MoreSpecific a b ↔ MoreSpec a b := by
  fun_induction MoreSpecific a b <;> simp_all [MoreSpec, elemCls_eq]

theorem StoredAt.toGetAt {n : Node} {pat : List Elem} {x : Node} (h : StoredAt n pat x) :
    getAt n pat = some x ∧ WildLast pat := by
  induction h with
  | here n => simp [WildLast]
  | lit hc _ ih => simp [getAt_cons, child, hc, ih.1, WildLast, ih.2]
  | param hc _ ih => simp [getAt_cons, child, hc, ih.1, WildLast, ih.2]
  | wild hc => simp [getAt_cons, child, hc, WildLast]

theorem StoredAt.of_getAt (pat : List Elem) : ∀ {n x : Node}, getAt n pat = some x → WildLast pat → StoredAt n pat x := by
  induction pat with
  | nil => intro n x h _; simp at h; subst h; exact .here n
  | cons e r ih =>
    intro n x h hw
    rw [getAt_cons] at h
    cases hc : child n e with
    | none => simp [hc] at h
    | some c =>
      simp only [hc, Option.bind_some] at h
      cases e with
      | lit s => exact .lit hc (ih h hw.2)
      | param => exact .param hc (ih h hw.2)
      | wild =>
        have := hw.1 rfl; subst this
        simp at h; subst h
        exact .wild hc

theorem storedAt_iff {n : Node} {pat : List Elem} {x : Node} :
    StoredAt n pat x ↔ getAt n pat = some x ∧ WildLast pat :=
  ⟨StoredAt.toGetAt, fun h => StoredAt.of_getAt pat h.1 h.2⟩


/-! ## the property theorems -/

/-- **soundness of lookup**: what `matchNode` returns is stored under a pattern that matches
the name, and (for an accepted configuration) carries a handler -/
theorem match_sound (root : Node) (toks : List Str) (f : Found)
    (h : matchNode root toks 0 0 = some f) :
    ∃ pat, StoredAt root pat f.node ∧ ElemsMatch pat toks := by
  obtain ⟨pat, hg, hm⟩ := matchNode_sound toks root 0 0 f h
  exact ⟨pat, storedAt_iff.2 ⟨hg, EMatch_wildLast hm⟩, (elemsMatch_iff _ _).2 hm⟩

/-- **completeness**: if some stored pattern with a handler matches the name, lookup finds one -/
theorem match_complete (root : Node) (toks : List Str) (pat : List Elem) (x : Node)
    (hs : StoredAt root pat x) (hh : x.hs.isSome) (hm : ElemsMatch pat toks) (hne : toks ≠ []) :
    ∃ f, matchNode root toks 0 0 = some f :=
  matchNode_complete toks root 0 0 pat x hs.toGetAt.1 hh ((elemsMatch_iff _ _).1 hm) hne

/-- **most specific**: no stored, handler-carrying, matching pattern is more specific than the
pattern lookup chose (token by token from the left, literal > placeholder > full wildcard) -/
theorem match_most_specific (root : Node) (hw : WildHaveHandlers root) (toks : List Str) (f : Found)
    (h : matchNode root toks 0 0 = some f) :
    ∃ pat, StoredAt root pat f.node ∧ ElemsMatch pat toks ∧ f.node.hs.isSome ∧
      ∀ pat' x', StoredAt root pat' x' → x'.hs.isSome → ElemsMatch pat' toks → ¬ MoreSpecific pat' pat := by
  obtain ⟨pat, hg, hm, hh, hbest⟩ := matchNode_most_specific toks root 0 0 f
    (fun pat x hg hwl hl => hw pat x (storedAt_iff.2 ⟨hg, hwl⟩) hl) h
  refine ⟨pat, storedAt_iff.2 ⟨hg, EMatch_wildLast hm⟩, (elemsMatch_iff _ _).2 hm, hh, ?_⟩
  intro pat' x' hs' hh' hm' hms
  exact hbest pat' x' hs'.toGetAt.1 hh' ((elemsMatch_iff _ _).1 hm') ((moreSpecific_iff _ _).1 hms)

/-- registration stores the handler exactly under the registered pattern … -/
theorem add_stores (root : Node) (pattern : Str) (id : Nat) (g : Group) (root' : Node)
    (h : addAt root pattern id g = (root', .ok ())) :
    ∃ x, StoredAt root' ((splitPattern pattern).map elemOf) x ∧ (x.hs.map (·.id)) = some id := by
  obtain ⟨x, hg, hw, hx⟩ := addAt_stores h
  exact ⟨x, storedAt_iff.2 ⟨hg, hw⟩, hx⟩

/-- … and changes the handler of no other pattern (frame), whether it succeeds or panics -/
theorem add_frame (root : Node) (pattern : Str) (id : Nat) (g : Group) (pat : List Elem) (x : Node)
    (hne : pat ≠ (splitPattern pattern).map elemOf)
    (hs : StoredAt root pat x) :
    ∃ x', StoredAt (addAt root pattern id g).1 pat x' ∧ x'.hs = x.hs ∧ x'.listeners = x.listeners := by
  obtain ⟨x', hg, hh⟩ := addAt_frame root pattern id g pat x hne hs.toGetAt.1
  exact ⟨x', storedAt_iff.2 ⟨hg, hs.toGetAt.2⟩, hh⟩

/-- a second registration on the same pattern (same trie edges) is rejected and an invalid
pattern is rejected -/
theorem add_conflict (root : Node) (pattern : Str) (id : Nat) (g : Group) (x : Node)
    (hs : StoredAt root ((splitPattern pattern).map elemOf) x) (hh : x.hs.isSome) :
    (addAt root pattern id g).2 ≠ .ok () :=
  addAt_conflict root pattern id g x hs.toGetAt.1 hh

theorem add_invalid (root : Node) (pattern : Str) (id : Nat) (g : Group)
    (h : Pattern.isValid pattern = false) : (addAt root pattern id g).2 = .error .invalidPattern := by
  simp [addAt, h]

/-- every pattern the documentation calls valid, with distinct tags, can be registered on a
fresh mux (in particular the anonymous placeholder `*`) -/
theorem add_valid_fresh (pattern : Str) (id : Nat) (ts : List Pattern.Tok)
    (hv : Pattern.isValid pattern = true)   -- equals `(parse pattern).isSome` by C17.isValid_iff_parse
    (hp : Pattern.parse pattern = some ts) (hd : Pattern.distinctTags ts = true) :
    (addAt Node.empty pattern id none).2 = .ok () :=
  addAt_valid_fresh pattern id ts none hv hp hd

/-- **lookup never panics**: on every reachable tree, for every mux path and every input string -/
theorem lookup_never_panics (root : Node) (hr : Reachable root) (path rname : Str) :
    getHandler path root rname ≠ .panic := by
  have hg : Good root 0 := by
    induction hr with
    | empty => exact Good_empty 0
    | handler pattern id group parallel _ ih => exact addHandlerAt_good _ pattern id group parallel ih
    | listener pattern id _ ih => exact addListenerAt_good _ pattern id ih
  exact getHandler_ne_panic root hg path rname

/-- **params are exact** on a freshly registered pattern: the reported parameters are exactly
the name's tokens at the `$`-positions of the pattern -/
theorem params_exact (pattern : Str) (id : Nat) (group : Str) (par : Bool) (root' : Node) (toks : List Str) (f : Found)
    (h : addHandlerAt Node.empty pattern id group par = (root', .ok ()))
    (hm : matchNode root' toks 0 0 = some f) :
    ∃ m, paramValues f.node.params toks f.mountIdx = some m ∧
      (∀ (j : Nat) (name : Str), (splitPattern pattern)[j]? = some (Ch.dollar :: name) → Pattern.mapGet m name = toks[j]?) ∧
      (∀ (name v : Str), Pattern.mapGet m name = some v → ∃ j : Nat, (splitPattern pattern)[j]? = some (Ch.dollar :: name)) :=
  params_exact' h hm

/-- **group is exact**: the stored group is the parsed template (indexes are positions of the
`$tag` tokens in the pattern), so `groupToString` substitutes the name's tokens at those positions;
no template = the resource name; Parallel = the empty group -/
theorem group_exact (pattern : Str) (id : Nat) (group : Str) (par : Bool) (root' : Node) (toks : List Str) (f : Found)
    (h : addHandlerAt Node.empty pattern id group par = (root', .ok ()))
    (hm : matchNode root' toks 0 0 = some f) :
    f.mountIdx = 0 ∧ ∃ reg, f.node.hs = some reg ∧ reg.id = id ∧
      (if par then reg.group = some [] else parseGroup group pattern = .ok reg.group) :=
  group_exact' h hm

/-- a group tag index produced by `parseGroup` points at the `$tag` token of the pattern -/
theorem parseGroup_idx (group pattern : Str) (parts : List GPart) (i : Nat)
    (h : parseGroup group pattern = .ok (some parts)) (hi : GPart.idx i ∈ parts) :
    ∃ name, (splitPattern pattern)[i]? = some (Ch.dollar :: name) :=
  parseGroup_idx' h hi


/-! ## through mounted sub-muxes

A mounted sub-mux is a subtree `sub` (flagged `mounted`) of the parent's tree at the literal
path `st` = mount path followed by the sub-mux's own path.  Lookups and registrations made
through the parent on names/patterns below `st` are the lookups and registrations of the
sub-mux, with every position shifted by `st.length`. -/

/-- **lookup through a mount** finds what the sub-mux finds, and reports the mount index shifted
by the length of the path to the mount point (so nested mounts compose) -/
theorem match_through_mount (root sub : Node) (st rest : List Str) (f : Found)
    (hst : LitPath st) (hloc : getAt root (st.map elemOf) = some sub) (hm : sub.mounted = true)
    (hf : matchNode sub rest 0 0 = some f) :
    matchNode root (st ++ rest) 0 0 = some ⟨f.node, f.mountIdx + st.length⟩ :=
  match_through_mount' root sub st rest f hst hloc hm hf

/-- … hence the **same path parameters** … -/
theorem params_through_mount (ps : List PathParam) (st rest : List Str) (mi : Nat) :
    paramValues ps (st ++ rest) (mi + st.length) = paramValues ps rest mi :=
  params_through_mount' ps st rest mi

/-- … and the **same group** as a lookup on the sub-mux itself -/
theorem group_through_mount (g : Group) (rname : Str) (st rest : List Str) (mi : Nat) :
    groupToString g rname ((st ++ rest).drop (mi + st.length)) = groupToString g rname (rest.drop mi) :=
  group_through_mount' g rname st rest mi

/-- **registration through a mount**: registering `st.p` on the parent — with a group template
whose tag positions are counted in the full pattern — is registering `p` on the sub-mux (tag
positions counted in `p`): the same subtree, the same outcome, for valid and invalid patterns,
fresh and conflicting ones alike.  `p` is a non-empty pattern (`hp`: at least one token; `hp1`:
not the single empty token, i.e. `p ≠ ""` — the empty pattern registers on the sub-mux's root
itself, which through the parent is the pattern `st`, not `st.`). -/
theorem add_through_mount (root sub : Node) (st ptoks : List Str) (id : Nat) (g : Group)
    (hst : LitPath st) (hloc : getAt root (st.map elemOf) = some sub) (hm : sub.mounted = true)
    (hp : ptoks ≠ []) (hp1 : ptoks ≠ [[]]) :
    addAt root (joinDots (st ++ ptoks)) id (shiftGroup st.length g) =
      ((setAt root (st.map elemOf) (addAt sub (joinDots ptoks) id g).1), (addAt sub (joinDots ptoks) id g).2) :=
  add_through_mount' root sub st ptoks id g hst hloc hm hp hp1

/-- the tokens of every path accepted by `Mount`/`NewMux` (`isValidPath`) form a `LitPath` -/
theorem litPath_of_validPath (p : Str) (h : Pattern.isValidPath p = true) : LitPath (splitPattern p) :=
  litPath_of_isValidPath h

/-! ### non-vacuity of the mount theorems

An empty sub-mux mounted at "m.n" on an empty root (`mnt0`; the mount point is `mntSub0`), then
"m.n.a.$x" registered *through the root* with a group template whose tag position is counted in
the full pattern (`$x` is token 3), and the name "m.n.a.v" looked up. -/
def mnt0 : Node := (mountAt Node.empty b!"m.n" Node.empty).1
def mntSub0 : Node := Node.empty.setMounted true
/-- registration through the root … -/
def mnt1 := addAt mnt0 b!"m.n.a.$x" 7 (some [.idx 3])
/-- … and the same registration on the sub-mux itself (`$x` is token 1 of "a.$x") -/
def mntSub1 := addAt mntSub0 b!"a.$x" 7 (some [.idx 1])

example : (mountAt Node.empty b!"m.n" Node.empty).2 = .ok () := rfl
-- the hypotheses `hst`, `hloc`, `hm` hold before the registration …
example : LitPath [b!"m", b!"n"] := by unfold LitPath; decide
example : LitPath (splitPattern b!"m.n") := litPath_of_validPath _ (by decide)
example : getAt mnt0 ([b!"m", b!"n"].map elemOf) = some mntSub0 ∧ mntSub0.mounted = true := ⟨rfl, rfl⟩
-- … so `add_through_mount` applies (pattern tokens `["a", "$x"]`, group index 1 shifted to 3);
-- both sides are a successful registration that stores a handler
example : mnt1 = (setAt mnt0 ([b!"m", b!"n"].map elemOf) mntSub1.1, mntSub1.2) :=
  add_through_mount mnt0 mntSub0 [b!"m", b!"n"] [b!"a", b!"$x"] 7 (some [.idx 1])
    (by unfold LitPath; decide) rfl rfl (by decide) (by decide)
example : mnt1.2 = .ok () ∧ mntSub1.2 = .ok () := ⟨rfl, rfl⟩
-- the hypotheses of `match_through_mount` hold after the registration, with a successful
-- sub-mux lookup of "a.v" (mount index 0) …
example : getAt mnt1.1 ([b!"m", b!"n"].map elemOf) = some mntSub1.1 ∧ mntSub1.1.mounted = true := ⟨rfl, rfl⟩
example : (matchNode mntSub1.1 [b!"a", b!"v"] 0 0).map (·.mountIdx) = some 0 := by decide
-- … and the lookup through the root reports mount index 0 + 2, the parameter x = "v" and the
-- group "v" (token 3 of the full name = token 1 below the mount point)
example : (matchNode mnt1.1 [b!"m", b!"n", b!"a", b!"v"] 0 0).map (·.mountIdx) = some 2 := by decide
example : getHandler [] mnt1.1 b!"m.n.a.v" = .found ⟨7, [], [(b!"x", b!"v")], b!"v"⟩ := by decide
example : getHandler [] mntSub1.1 b!"a.v" = .found ⟨7, [], [(b!"x", b!"v")], b!"v"⟩ := by decide
-- the excluded case of `hp1`: "" registers on the mount point, "m.n." is invalid
example : (addAt mntSub0 (joinDots [[]]) 7 none).2 = .ok () ∧
    (addAt mnt0 (joinDots ([b!"m", b!"n"] ++ [[]])) 7 none).2 = .error .invalidPattern := ⟨rfl, rfl⟩

/-! ## non-vacuity -/
-- a=97 b=98 x=120 '$'=36 '.'=46 '>'=62 '*'=42
example : ElemsMatch [.lit [97], .param, .wild] [[97], [98], [99], [100]] := by simp [ElemsMatch]
example : MoreSpecific [.lit [97], .param] [.lit [97], .wild] := by simp [MoreSpecific, elemCls]

-- the hypotheses of `params_exact` / `group_exact` / `lookup_never_panics` / `add_conflict` are met:
-- "a.$x" registered on the empty mux, then "a.b" looked up
def ex1 := addHandlerAt Node.empty [97, 46, 36, 120] 7 [] false
example : ex1.2 = .ok () := rfl
example : (matchNode ex1.1 [[97], [98]] 0 0).isSome = true := by decide
example : getHandler [] ex1.1 [97, 46, 98] = .found ⟨7, [], [([120], [98])], [97, 46, 98]⟩ := by decide
example : Reachable ex1.1 := .handler _ _ _ _ .empty
example : (addAt Node.empty [97, 46, 42] 1 none).2 = .ok () := rfl   -- "a.*"
example : (addAt ex1.1 [97, 46, 36, 121] 1 none).2 = .error .already := rfl   -- "a.$y" hits the node of "a.$x"

end GoRes.Props.C06
