import GoRes.Model.Codec
import GoRes.Lemmas.Codec
/-! # C18 — values and responses survive the wire between service and client packages

JSON text ⇄ tree is `encoding/json` (trusted; the correspondence run compares the real
marshalled bytes). The theorems are about the library's own code: the byte assembly with
`make`/`copy` at fixed offsets, the classification of values, `Equal`, data-value wrapping
and the classification of responses. -/
namespace GoRes.Props.C18
open GoRes GoRes.Json GoRes.Codec

/-- **reference bytes**: for every string encoding, of every length, `Ref.MarshalJSON`
assembles exactly `{"rid":<enc>}` … -/
theorem ref_bytes (enc : Str) : marshalRef enc = refPrefix ++ enc ++ [125] := by
  sorry

/-- … and `SoftRef.MarshalJSON` exactly `{"rid":<enc>,"soft":true}` -/
theorem softref_bytes (enc : Str) : marshalSoftRef enc = refPrefix ++ enc ++ softRefSuffix := by
  sorry

/-- **data value bytes**: objects and arrays are wrapped as `{"data":<enc>}`, everything else
is passed through -/
theorem datavalue_bytes (enc : Str) :
    marshalDataValue enc =
      if enc.head? = some 91 ∨ enc.head? = some 123 then dataPrefix ++ enc ++ [125] else enc := by
  sorry

/-- the wrapped tree of a value -/
def wrap (j : J) : J := if j.isObj || j.isArr then .obj [(b!"data", j)] else j

/-- **data-value round trip**: unmarshalling the marshalled value gives the value back, for
every JSON value -/
theorem datavalue_roundtrip (j : J) : unmarshalDataValue (wrap j) = some j := by
  sorry

/-- arrays are not data values; objects without a `data` member neither -/
theorem datavalue_rejects (items : List J) (ms : List (Str × J)) (h : member ms b!"data" = none) :
    unmarshalDataValue (.arr items) = none ∧ unmarshalDataValue (.obj ms) = none := by
  sorry

/-- the marshalled bytes are the rendering of the wrapped tree (numbers as `encoding/json`
writes them: starting with a digit or `-`) -/
def StartsLikeNumber : J → Prop
  | .num t => ∃ c r, t = c :: r ∧ c ≠ 91 ∧ c ≠ 123
  | _ => True

theorem marshal_is_wrap (j : J) (h : StartsLikeNumber j) : marshalDataValueJ j = render (wrap j) := by
  sorry

/-- **Equal is an equivalence** … -/
theorem equal_refl (v : Value) : equal v v = true := by
  sorry
theorem equal_symm (v w : Value) : equal v w = equal w v := by
  sorry
theorem equal_trans (u v w : Value) (h1 : equal u v = true) (h2 : equal v w = true) : equal u w = true := by
  sorry

/-- … **that implies equality of what the values mean** (type and information-carrying part) -/
theorem equal_sound (v w : Value) (h : equal v w = true) : meaning v = meaning w := by
  sorry

/-- **classification** as the protocol defines it: anything that is not an object or array is a
primitive; arrays are invalid … -/
theorem classify_primitive (j : J) (h : j.isObj = false) (h' : j.isArr = false) :
    classify j = some ⟨.primitive, render j, [], []⟩ := by
  sorry
theorem classify_array (items : List J) : classify (.arr items) = none := by
  sorry

/-- … `{"rid":r}` is a reference (soft with `"soft":true`) when `r` is a valid resource id and
invalid otherwise or when mixed with `action`/`data` … -/
theorem classify_reference (r : Str) (soft : Bool) (extra : List (Str × J))
    (hx : ∀ m ∈ extra, m.1 ≠ b!"rid" ∧ m.1 ≠ b!"soft" ∧ m.1 ≠ b!"action" ∧ m.1 ≠ b!"data") :
    (classify (.obj ([(b!"rid", .str r), (b!"soft", .bool soft)] ++ extra))).map (fun v => (v.typ, v.rid)) =
      if r.isEmpty ∨ isValidRIDB r = false then none
      else some (if soft then VType.softReference else VType.reference, r) := by
  sorry
theorem classify_reference_mixed (r : Str) (ms : List (Str × J)) (k : Str) (x : J)
    (hk : k = b!"action" ∨ k = b!"data") (hx : x ≠ .null ∨ k = b!"data")
    (hm : member ((b!"rid", .str r) :: ms ++ [(k, x)]) b!"rid" = some (.str r)) :
    classify (.obj ((b!"rid", .str r) :: ms ++ [(k, x)])) = none := by
  sorry

/-- … `{"action":"delete"}` is the delete action, any other action is invalid … -/
theorem classify_delete (a : Str) : (classify (.obj [(b!"action", .str a)])).map (·.typ) =
    if a = b!"delete" then some VType.delete else none := by
  sorry

/-- … `{"data":d}` is a data value when `d` is an object or array and the primitive `d` otherwise;
an object with none of the reserved members is invalid -/
theorem classify_data (d : J) : (classify (.obj [(b!"data", d)])).map (fun v => (v.typ, v.inner)) =
    some (if d.isObj || d.isArr then VType.data else VType.primitive, render d) := by
  sorry
theorem classify_other_object (ms : List (Str × J))
    (h : ∀ m ∈ ms, m.1 ≠ b!"rid" ∧ m.1 ≠ b!"soft" ∧ m.1 ≠ b!"action" ∧ m.1 ≠ b!"data") :
    classify (.obj ms) = none := by
  sorry

/-- **a response is exactly one of result, resource or error**, whatever was received -/
theorem response_exactly_one (j : Option J) :
    ([hasError (parseResponse j), hasResource (parseResponse j), hasResult (parseResponse j)].count true) = 1 := by
  sorry

/-- **what the service publishes is classified as what it is and decodes to the supplied data**:
the three envelopes of `Model/Req.lean` (with or without meta) -/
theorem service_result (v : J) (metaMember : List (Str × J)) (hm : ∀ m ∈ metaMember, m.1 = b!"meta") :
    parseResponse (some (.obj (metaMember ++ [(b!"result", v)]))) = .result (render v) := by
  sorry
theorem service_resource (rid : Str) (hne : rid ≠ []) (metaMember : List (Str × J)) (hm : ∀ m ∈ metaMember, m.1 = b!"meta") :
    parseResponse (some (.obj (metaMember ++ [(b!"resource", .obj [(b!"rid", .str rid)])]))) = .resource rid := by
  sorry
theorem service_error (code msg : Str) (metaMember : List (Str × J)) (hm : ∀ m ∈ metaMember, m.1 = b!"meta") :
    parseResponse (some (.obj ([(b!"error", .obj [(b!"code", .str code), (b!"message", .str msg)])] ++ metaMember))) = .error code := by
  sorry
theorem invalid_is_internal_error : parseResponse none = .error internalCode ∧ parseResponse (some (.obj [])) = .error internalCode := by
  sorry

/-! ## non-vacuity -/
example : marshalRef b!"\"x.y\"" = b!"{\"rid\":\"x.y\"}" := by decide
example : marshalDataValue b!"[1]" = b!"{\"data\":[1]}" := by decide

end GoRes.Props.C18
