import GoRes.Model.Codec
import GoRes.Lemmas.Codec
/-! # C18 — values and responses survive the wire between service and client packages

JSON text ⇄ tree is `encoding/json` (trusted; the correspondence run compares the real
marshalled bytes). The theorems are about the library's own code: the byte assembly with
`make`/`copy` at fixed offsets, the classification of values, `Equal`, data-value wrapping
and the classification of responses. -/
namespace GoRes.Props.C18
open GoRes GoRes.Json GoRes.Codec

/-- **reference bytes**: for every string encoding, of every length, `Ref.MarshalJSON`
assembles exactly `{"rid":<enc>}` … -/
theorem ref_bytes (enc : Str) : marshalRef enc = refPrefix ++ enc ++ [125] := by
  have h1 : copyAt (List.replicate (enc.length + 8) 0) 0 refPrefix
      = refPrefix ++ List.replicate (enc.length + 1) 0 := by
    rw [copyAt_zero _ _ (by simp [refPrefix])]
    simp [refPrefix]
  have h2 : copyAt (refPrefix ++ List.replicate (enc.length + 1) 0) 7 enc
      = (refPrefix ++ enc) ++ [0] := by
    rw [copyAt_append_left' _ _ _ 7 (by simp [refPrefix]), copyAt_zero _ _ (by simp)]
    simp [List.drop_replicate]
  unfold marshalRef
  simp only [h1, h2]
  exact set_append_last _ _ _ _ (by simp [refPrefix])

/-- … and `SoftRef.MarshalJSON` exactly `{"rid":<enc>,"soft":true}` -/
theorem softref_bytes (enc : Str) : marshalSoftRef enc = refPrefix ++ enc ++ softRefSuffix := by
  have h1 : copyAt (List.replicate (enc.length + 20) 0) 0 refPrefix
      = refPrefix ++ List.replicate (enc.length + 13) 0 := by
    rw [copyAt_zero _ _ (by simp [refPrefix])]
    simp [refPrefix]
  have h2 : copyAt (refPrefix ++ List.replicate (enc.length + 13) 0) 7 enc
      = (refPrefix ++ enc) ++ List.replicate 13 0 := by
    rw [copyAt_append_left' _ _ _ 7 (by simp [refPrefix]), copyAt_zero _ _ (by simp)]
    simp
  unfold marshalSoftRef
  simp only [h1, h2]
  rw [copyAt_append_left' _ _ _ _ (by simp [refPrefix]), copyAt_zero _ _ (by simp [softRefSuffix])]
  simp [softRefSuffix]

/-- **data value bytes**: objects and arrays are wrapped as `{"data":<enc>}`, everything else
is passed through -/
theorem datavalue_bytes (enc : Str) :
    marshalDataValue enc =
      if enc.head? = some 91 ∨ enc.head? = some 123 then dataPrefix ++ enc ++ [125] else enc := by
  unfold marshalDataValue
  cases enc with
  | nil => simp
  | cons c r =>
    simp only [List.head?_cons, Option.some.injEq]
    split
    · exact datavalue_wrapped (c :: r)
    · rfl

/-- the wrapped tree of a value -/
def wrap (j : J) : J := if j.isObj || j.isArr then .obj [(b!"data", j)] else j

/-- **data-value round trip**: unmarshalling the marshalled value gives the value back, for
every JSON value -/
theorem datavalue_roundtrip (j : J) : unmarshalDataValue (wrap j) = some j := by
  cases j <;> simp [wrap, J.isObj, J.isArr, unmarshalDataValue, member]

/-- arrays are not data values; objects without a `data` member neither -/
theorem datavalue_rejects (items : List J) (ms : List (Str × J)) (h : member ms b!"data" = none) :
    unmarshalDataValue (.arr items) = none ∧ unmarshalDataValue (.obj ms) = none := by
  simp [unmarshalDataValue, h]

/-- the marshalled bytes are the rendering of the wrapped tree (numbers as `encoding/json`
writes them: starting with a digit or `-`) -/
def StartsLikeNumber : J → Prop
  | .num t => ∃ c r, t = c :: r ∧ c ≠ 91 ∧ c ≠ 123
  | _ => True

theorem marshal_is_wrap (j : J) (h : StartsLikeNumber j) : marshalDataValueJ j = render (wrap j) := by
  unfold marshalDataValueJ
  rw [datavalue_bytes]
  cases j with
  | null => simp [render, wrap, J.isObj, J.isArr]
  | bool b => cases b <;> simp [render, wrap, J.isObj, J.isArr]
  | num t =>
    obtain ⟨c, r, rfl, h1, h2⟩ := h
    simp [render, wrap, J.isObj, J.isArr, h1, h2]
  | str raw => simp [render, wrap, J.isObj, J.isArr]
  | arr items => simp [render, wrap, J.isObj, J.isArr, renderMembers, dataPrefix]
  | obj ms => simp [render, wrap, J.isObj, J.isArr, renderMembers, dataPrefix]

/-- **Equal is an equivalence** … -/
theorem equal_refl (v : Value) : equal v v = true := by
  unfold equal; cases h : v.typ <;> simp
theorem equal_symm (v w : Value) : equal v w = equal w v := by
  unfold equal
  by_cases h : v.typ = w.typ
  · rw [h]; cases w.typ <;> simp [eq_comm]
  · have h' : ¬ w.typ = v.typ := fun e => h e.symm
    simp [h, h']
theorem equal_trans (u v w : Value) (h1 : equal u v = true) (h2 : equal v w = true) : equal u w = true := by
  unfold equal at *
  by_cases huv : u.typ = v.typ
  · by_cases hvw : v.typ = w.typ
    · have huw : u.typ = w.typ := huv.trans hvw
      rw [huv] at h1; rw [huw]; rw [hvw] at h1 h2
      cases hw : w.typ <;> simp [hw] at h1 h2 ⊢ <;> exact h1.trans h2
    · simp [hvw] at h2
  · simp [huv] at h1

/-- … **that implies equality of what the values mean** (type and information-carrying part) -/
theorem equal_sound (v w : Value) (h : equal v w = true) : meaning v = meaning w := by
  unfold equal at h
  by_cases hvw : v.typ = w.typ
  · unfold meaning
    rw [hvw] at h ⊢
    cases hw : w.typ <;> simp [hw] at h ⊢ <;> exact h
  · simp [hvw] at h

/-- **classification** as the protocol defines it: anything that is not an object or array is a
primitive; arrays are invalid … -/
theorem classify_primitive (j : J) (h : j.isObj = false) (h' : j.isArr = false) :
    classify j = some ⟨.primitive, render j, [], []⟩ := by
  cases j <;> simp [classify, J.isObj, J.isArr] at *
theorem classify_array (items : List J) : classify (.arr items) = none := by
  simp [classify]

/-- … `{"rid":r}` is a reference (soft with `"soft":true`) when `r` is a valid resource id and
invalid otherwise or when mixed with `action`/`data` … -/
theorem classify_reference (r : Str) (soft : Bool) (extra : List (Str × J))
    (hx : ∀ m ∈ extra, m.1 ≠ b!"rid" ∧ m.1 ≠ b!"soft" ∧ m.1 ≠ b!"action" ∧ m.1 ≠ b!"data") :
    (classify (.obj ([(b!"rid", .str r), (b!"soft", .bool soft)] ++ extra))).map (fun v => (v.typ, v.rid)) =
      if r.isEmpty ∨ isValidRIDB r = false then none
      else some (if soft then VType.softReference else VType.reference, r) := by
  have hrid : member ([(b!"rid", .str r), (b!"soft", .bool soft)] ++ extra) b!"rid" = some (.str r) := by
    rw [member_append_of_right_none _ _ _ (fun m hm => (hx m hm).1)]; simp [member]
  have hsoft : member ([(b!"rid", .str r), (b!"soft", .bool soft)] ++ extra) b!"soft" = some (.bool soft) := by
    rw [member_append_of_right_none _ _ _ (fun m hm => (hx m hm).2.1)]; simp [member]
  have hact : member ([(b!"rid", .str r), (b!"soft", .bool soft)] ++ extra) b!"action" = none := by
    rw [member_append_of_right_none _ _ _ (fun m hm => (hx m hm).2.2.1)]; simp [member]
  have hdata : member ([(b!"rid", .str r), (b!"soft", .bool soft)] ++ extra) b!"data" = none := by
    rw [member_append_of_right_none _ _ _ (fun m hm => (hx m hm).2.2.2)]; simp [member]
  simp only [classify, hrid, hsoft, hact, hdata]
  by_cases he : r.isEmpty = true
  · simp [he]
  · by_cases hv : isValidRIDB r = true
    · simp [he, hv]
    · simp [he, hv]
theorem classify_reference_mixed (r : Str) (ms : List (Str × J)) (k : Str) (x : J)
    (hk : k = b!"action" ∨ k = b!"data") (hx : x ≠ .null ∨ k = b!"data")
    (hm : member ((b!"rid", .str r) :: ms ++ [(k, x)]) b!"rid" = some (.str r)) :
    classify (.obj ((b!"rid", .str r) :: ms ++ [(k, x)])) = none := by
  have hkx := member_append_single ((b!"rid", .str r) :: ms) k x
  generalize hs : member ((b!"rid", J.str r) :: ms ++ [(k, x)]) b!"soft" = sm
  rcases hk with rfl | rfl
  · have hxn : x ≠ .null := by
      rcases hx with h | h
      · exact h
      · exact absurd h (by decide)
    simp only [classify, hm, hkx, hs]
    cases x with
    | null => exact absurd rfl hxn
    | _ => rcases sm with _ | (_|_|_|_|_|_) <;> simp
  · generalize ha : member ((b!"rid", J.str r) :: ms ++ [(b!"data", x)]) b!"action" = am
    simp only [classify, hm, hkx, hs, ha]
    rcases sm with _ | (_|_|_|_|_|_) <;> rcases am with _ | (_|_|_|_|_|_) <;> simp

/-- … `{"action":"delete"}` is the delete action, any other action is invalid … -/
theorem classify_delete (a : Str) : (classify (.obj [(b!"action", .str a)])).map (·.typ) =
    if a = b!"delete" then some VType.delete else none := by
  have h1 : member [(b!"action", J.str a)] b!"rid" = none := by simp [member]
  have h2 : member [(b!"action", J.str a)] b!"soft" = none := by simp [member]
  have h3 : member [(b!"action", J.str a)] b!"action" = some (.str a) := by simp [member]
  have h4 : member [(b!"action", J.str a)] b!"data" = none := by simp [member]
  simp only [classify, h1, h2, h3, h4]
  by_cases h : a = b!"delete" <;> simp [h]

/-- … in *any* object (whatever its other members, in whatever order): an action next to a `data`
member is invalid, and so is an action other than `delete` - such an object is never taken for the
data value or the primitive its `data` member would be on its own -/
theorem classify_action_general (ms : List (Str × J)) (a : Str)
    (ha : member ms b!"action" = some (.str a))
    (h : a ≠ b!"delete" ∨ (member ms b!"data").isSome) : classify (.obj ms) = none := by
  generalize hr : member ms b!"rid" = rm
  generalize hs : member ms b!"soft" = sm
  generalize hd : member ms b!"data" = dm at h
  simp only [classify, hr, hs, ha, hd]
  rcases rm with _ | (_|_|_|_|_|_) <;> rcases sm with _ | (_|_|_|_|_|_) <;> simp
  all_goals
    intro hdm
    rcases h with h | h
    · exact h
    · simp [hdm] at h

example : classify (.obj [(b!"action", .str b!"remove"), (b!"data", .obj [(b!"foo", .num b!"42")])]) = none := by decide

/-- … `{"data":d}` is a data value when `d` is an object or array and the primitive `d` otherwise;
an object with none of the reserved members is invalid -/
theorem classify_data (d : J) : (classify (.obj [(b!"data", d)])).map (fun v => (v.typ, v.inner)) =
    some (if d.isObj || d.isArr then VType.data else VType.primitive, render d) := by
  have h1 : member [(b!"data", d)] b!"rid" = none := by simp [member]
  have h2 : member [(b!"data", d)] b!"soft" = none := by simp [member]
  have h3 : member [(b!"data", d)] b!"action" = none := by simp [member]
  have h4 : member [(b!"data", d)] b!"data" = some d := by simp [member]
  simp only [classify, h1, h2, h3, h4]
  cases d <;> simp [J.isObj, J.isArr]
theorem classify_other_object (ms : List (Str × J))
    (h : ∀ m ∈ ms, m.1 ≠ b!"rid" ∧ m.1 ≠ b!"soft" ∧ m.1 ≠ b!"action" ∧ m.1 ≠ b!"data") :
    classify (.obj ms) = none := by
  have h1 := member_none_of_forall_ne ms _ (fun m hm => (h m hm).1)
  have h2 := member_none_of_forall_ne ms _ (fun m hm => (h m hm).2.1)
  have h3 := member_none_of_forall_ne ms _ (fun m hm => (h m hm).2.2.1)
  have h4 := member_none_of_forall_ne ms _ (fun m hm => (h m hm).2.2.2)
  simp only [classify, h1, h2, h3, h4]

/-- **a response is exactly one of result, resource or error**, whatever was received -/
theorem response_exactly_one (j : Option J) :
    ([hasError (parseResponse j), hasResource (parseResponse j), hasResult (parseResponse j)].count true) = 1 := by
  generalize parseResponse j = r
  cases r <;> rfl

/-- **what the service publishes is classified as what it is and decodes to the supplied data**:
the three envelopes of `Model/Req.lean` (with or without meta) -/
theorem service_result (v : J) (metaMember : List (Str × J)) (hm : ∀ m ∈ metaMember, m.1 = b!"meta") :
    parseResponse (some (.obj (metaMember ++ [(b!"result", v)]))) = .result (render v) := by
  have h1 : member (metaMember ++ [(b!"result", v)]) b!"error" = none := by
    rw [member_append_of_left_none _ _ _ (meta_ne _ hm _ (by decide))]; simp [member]
  have h2 : member (metaMember ++ [(b!"result", v)]) b!"resource" = none := by
    rw [member_append_of_left_none _ _ _ (meta_ne _ hm _ (by decide))]; simp [member]
  have h3 := member_append_single metaMember b!"result" v
  simp [parseResponse, h1, h2, h3]
theorem service_resource (rid : Str) (hne : rid ≠ []) (metaMember : List (Str × J)) (hm : ∀ m ∈ metaMember, m.1 = b!"meta") :
    parseResponse (some (.obj (metaMember ++ [(b!"resource", .obj [(b!"rid", .str rid)])]))) = .resource rid := by
  have h1 : member (metaMember ++ [(b!"resource", .obj [(b!"rid", .str rid)])]) b!"error" = none := by
    rw [member_append_of_left_none _ _ _ (meta_ne _ hm _ (by decide))]; simp [member]
  have h2 := member_append_single metaMember b!"resource" (.obj [(b!"rid", .str rid)])
  have h3 : member [(b!"rid", J.str rid)] b!"rid" = some (.str rid) := by simp [member]
  simp [parseResponse, h1, h2, h3, hne]
theorem service_error (code msg : Str) (metaMember : List (Str × J)) (hm : ∀ m ∈ metaMember, m.1 = b!"meta") :
    parseResponse (some (.obj ([(b!"error", .obj [(b!"code", .str code), (b!"message", .str msg)])] ++ metaMember))) = .error code := by
  have h1 : member ([(b!"error", .obj [(b!"code", .str code), (b!"message", .str msg)])] ++ metaMember) b!"error"
      = some (.obj [(b!"code", .str code), (b!"message", .str msg)]) := by
    rw [member_append_of_right_none _ _ _ (meta_ne _ hm _ (by decide))]; simp [member]
  have h2 : member ([(b!"error", .obj [(b!"code", .str code), (b!"message", .str msg)])] ++ metaMember) b!"resource"
      = none := by
    rw [member_append_of_right_none _ _ _ (meta_ne _ hm _ (by decide))]; simp [member]
  have h3 : member [(b!"code", J.str code), (b!"message", J.str msg)] b!"code" = some (.str code) := by simp [member]
  have h4 : member [(b!"code", J.str code), (b!"message", J.str msg)] b!"message" = some (.str msg) := by simp [member]
  simp only [parseResponse, h1, h2, h3, h4]
  simp
theorem invalid_is_internal_error : parseResponse none = .error internalCode ∧ parseResponse (some (.obj [])) = .error internalCode := by
  constructor <;> rfl

/-! ## non-vacuity -/
example : marshalRef b!"\"x.y\"" = b!"{\"rid\":\"x.y\"}" := by decide
example : marshalDataValue b!"[1]" = b!"{\"data\":[1]}" := by decide

end GoRes.Props.C18
