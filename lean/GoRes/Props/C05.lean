import GoRes.Model.Req
import GoRes.Lemmas.Req
/-! # C05 — requests are dispatched to the right handler with unaltered data -/
namespace GoRes.Props.C05
open GoRes GoRes.Req

/-- a token: no dot -/
def NoDot (s : Str) : Prop := ∀ c ∈ s, c ≠ 46

/-- **subject splitting**, for every resource name — dots and method-like tokens included:
`get`/`access` take everything after the type as the resource name … -/
theorem split_plain (t rname : Str) (ht : NoDot t) (h1 : t ≠ b!"call") (h2 : t ≠ b!"auth") :
    splitSubject (t ++ 46 :: rname) = some (t, rname, []) := by
  exact splitSubject_plain t rname ht h1 h2

/-- … `call`/`auth` take the last token as the method and everything between as the name -/
theorem split_method (t rname m : Str) (ht : t = b!"call" ∨ t = b!"auth") (hm : NoDot m) :
    splitSubject (t ++ 46 :: rname ++ 46 :: m) = some (t, rname, m) := by
  exact splitSubject_method t rname m ht hm

/-- **handler selection** (the decision table, stated outright) -/
theorem pick_access (cfg : HCfg) (r : ReqIn) (h : r.rtype = .access) :
    pick cfg r = if cfg.hasAccess then .invoke "access" else .noReplyAtAll := by
  simp [pick, h]

theorem pick_get (cfg : HCfg) (r : ReqIn) (h : r.rtype = .get) :
    pick cfg r = if cfg.hasGet then .invoke "get" else .reply (respError codeNotFound (b!"Not found") none) := by
  simp [pick, h]

theorem pick_call (cfg : HCfg) (r : ReqIn) (h : r.rtype = .call) :
    pick cfg r =
      if r.method = b!"new" ∧ cfg.hasNew then .invoke "new"           -- `new` prefers the new handler
      else if r.method ∈ cfg.call then .invoke "call"                    -- the named method
      else if [42] ∈ cfg.call then .invoke "call*"                       -- else the * method
      else .reply (respError codeMethodNotFound (b!"Method not found") none) := by
  simp [pick, h]

theorem pick_auth (cfg : HCfg) (r : ReqIn) (h : r.rtype = .auth) :
    pick cfg r =
      if r.method ∈ cfg.auth then .invoke "auth"
      else if [42] ∈ cfg.auth then .invoke "auth*"
      else .reply (respError codeMethodNotFound (b!"Method not found") none) := by
  simp [pick, h]

/-- **nothing can be invoked**: no resource → notFound; payload not JSON → internalError -/
theorem no_resource (cfg : HCfg) (r : ReqIn) (script : List Action) (h : r.found = false) :
    process cfg r script = [.pub replySubj (respError codeNotFound (b!"Not found") none)] := by
  simp [process_eq, h]

theorem bad_payload (cfg : HCfg) (r : ReqIn) (script : List Action) (h : r.found = true) (hb : r.payload = .bad) :
    process cfg r script = [.pub replySubj (respError codeInternal goErr none)] := by
  simp [process_eq, h, hb]

/-- **the handler sees the request data exactly as sent**: the first effect of an invoked handler
is the record of what it sees, which is the request's own fields -/
theorem fields_verbatim (cfg : HCfg) (r : ReqIn) (script : List Action) (kind : String)
    (hf : r.found = true) (hp : r.payload = .ok) (hk : pick cfg r = .invoke kind) :
    (process cfg r script).head? = some (.seen (encSeen kind r)) := by
  have hb : r.payload ≠ .bad := by simp [hp]
  rw [process_invoke script hf hb (by rw [normReq_ok r hp]; exact hk), normReq_ok r hp]
  obtain ⟨d, hd⟩ := finish_extends (runScript cfg r (seen0 kind r) script)
  obtain ⟨d', hd'⟩ := runScript_extends cfg r (seen0 kind r) script
  rw [hd, hd']; rfl

/-- **outcome map**: an error of the library's type passed to `Error` (first responder of the script,
nothing but non-panicking steps before) is returned verbatim -/
theorem error_verbatim (cfg : HCfg) (r : ReqIn) (kind : String) (c m : Str) (rest : List Action)
    (hf : r.found = true) (hp : r.payload = .ok) (hk : pick cfg r = .invoke kind) (hh : r.isHTTP = false) :
    responses (process cfg r (.error (.res c m) :: rest)) = [respError c m none] := by
  have _ := hh   -- not needed: the handler has set no meta before its first action
  have hb : r.payload ≠ .bad := by simp [hp]
  rw [process_invoke _ hf hb (by rw [normReq_ok r hp]; exact hk), normReq_ok r hp]
  have ha : act cfg r (seen0 kind r) (.error (.res c m)) =
      .cont { replied := true, effs := [.seen (encSeen kind r), .pub replySubj (respError c m none)] } := by
    simp [act, errVParts, errMeta, reply, seen0, emit, metaOf, Meta.render]
  simp only [runScript, ha]
  rw [responses_finish_replied _ _ _ _ rfl]
  exact responses_seen_reply _ _ (by simp)

/-- … as is one the handler panics with -/
theorem panic_error_verbatim (cfg : HCfg) (r : ReqIn) (kind : String) (c m : Str) (rest : List Action)
    (hf : r.found = true) (hp : r.payload = .ok) (hk : pick cfg r = .invoke kind) :
    responses (process cfg r (.panic (.err (.res c m)) :: rest)) = [respError c m none] := by
  have hb : r.payload ≠ .bad := by simp [hp]
  rw [process_invoke _ hf hb (by rw [normReq_ok r hp]; exact hk), normReq_ok r hp]
  simp only [runScript, act, finish]
  simp only [recoverArm, seen0, errVParts, errMeta, errorReply, emit, metaOf, Meta.render]
  exact responses_seen_reply _ _ (by simp)

/-- any other panic before a reply becomes `system.internalError` -/
theorem other_panic_internal (cfg : HCfg) (r : ReqIn) (kind : String) (p : PanicV) (rest : List Action)
    (hf : r.found = true) (hp : r.payload = .ok) (hk : pick cfg r = .invoke kind)
    (hne : ∀ c m, p ≠ .err (.res c m)) :
    ∃ msg, responses (process cfg r (.panic p :: rest)) = [respError codeInternal msg none] := by
  have hb : r.payload ≠ .bad := by simp [hp]
  rw [process_invoke _ hf hb (by rw [normReq_ok r hp]; exact hk), normReq_ok r hp]
  simp only [runScript, act, finish]
  cases p with
  | err e =>
    cases e with
    | res c m => exact absurd rfl (hne c m)
    | go m => exact ⟨_, responses_seen_reply _ _ (by simp)⟩
    | resBad => exact ⟨_, responses_seen_reply _ _ (by simp)⟩
  | lib => exact ⟨_, responses_seen_reply _ _ (by simp)⟩
  | str m => exact ⟨_, responses_seen_reply _ _ (by simp)⟩
  | other m => exact ⟨_, responses_seen_reply _ _ (by simp)⟩

/-- a handler that returns without replying gets `system.internalError` "missing response" -/
theorem missing_reply_internal (cfg : HCfg) (r : ReqIn) (kind : String) (script : List Action)
    (hf : r.found = true) (hp : r.payload ≠ .bad) (hk : pick cfg (if r.payload = .empty then { r with cid := [], isHTTP := false, rawParams := none, token := none, query := [] } else r) = .invoke kind)
    (hs : script = []) :
    responses (process cfg r script) = [missingResponse] := by
  subst hs
  rw [process_invoke _ hf hp hk]
  exact responses_seen_reply _ _ (by simp)

/-! ## non-vacuity: a resource name with dots and a method-like token -/
-- "call" ++ "." ++ "a.call.b" ++ "." ++ "m"
example : NoDot [109] := by simp [NoDot]

end GoRes.Props.C05
