import GoRes.Model.Pool
import GoRes.Lemmas.Pool
/-! # C02 — callbacks of a group run exactly once, in submission order -/
namespace GoRes.Props.C02
open GoRes.Pool

/-- **order**: the callbacks of a group start in the order they were accepted (enqueued under the
mutex) — across any number of start/stop cycles the started ones are a subsequence … -/
theorem order_preserved (acts : List Act) (s : St) (h : run init acts = some s) (g : Nat) (hg : g ≠ 0) :
    (cbsOf g s.started).Sublist (cbsOf g s.accepted) := by
  have h0 : Ord (view g init) := ⟨[], rfl, List.Sublist.refl _⟩
  obtain ⟨pre, h1, h2⟩ := ord_run Inv.init h g hg h0
  simp only [view] at h1 h2
  rw [h1]
  exact h2.trans (List.sublist_append_left _ _)

/-- … and **exactly once, never dropped**: as long as Shutdown has not closed the queue, what was
accepted for a group is exactly what has started followed by what is still pending, in order -/
theorem fifo_exact (acts : List Act) (s : St) (h : run init acts = some s) (hno : Act.closeLock ∉ acts)
    (g : Nat) (hg : g ≠ 0) :
    cbsOf g s.started ++ pendingOf g s = cbsOf g s.accepted := by
  have h0 : Fifo (view g init) := rfl
  exact fifo_run Inv.init h hno g hg h0

/-- never twice: distinct submissions start at most once each (all groups, Parallel included) -/
theorem never_twice (acts : List Act) (s : St) (h : run init acts = some s)
    (hd : (s.accepted.map (·.2)).Nodup) : (s.started.map (·.2)).Nodup := by
  have hI := Inv.reachable h
  rw [List.nodup_iff_count] at hd ⊢
  intro c
  have h1 := hd c
  have h2 := hI.count (fun x => x.2 == c)
  simp only [List.count_eq_countP, List.countP_map, Function.comp_def] at h1 ⊢
  omega

/-- nothing runs that was not accepted -/
theorem started_accepted (acts : List Act) (s : St) (h : run init acts = some s) :
    ∀ x ∈ s.started, x ∈ s.accepted := by
  have hI := Inv.reachable h
  intro x hx
  have h1 : 0 < s.started.countP (· == x) := List.countP_pos_iff.mpr ⟨x, hx, by simp⟩
  have h2 := hI.count (· == x)
  have h3 : 0 < s.accepted.countP (· == x) := by omega
  obtain ⟨y, hy, hxy⟩ := List.countP_pos_iff.mp h3
  simp at hxy; exact hxy ▸ hy

/-- `rwork` registers exactly the groups that have a live work item while the queue is open, so a
submission is never appended to a retired item and nothing is retired while callbacks are pending -/
theorem rwork_exact (acts : List Act) (s : St) (h : run init acts = some s) (hq : s.wq.isSome)
    (g : Nat) (hg : g ≠ 0) : (g ∈ s.rwork ↔ cnt g s = 1) ∧ s.rwork.Nodup := by
  have hI := Inv.reachable h
  obtain ⟨q, hq⟩ := Option.isSome_iff_exists.mp hq
  have hc := hI.core q hq
  refine ⟨?_, hc.nodup⟩
  rw [cnt_eq, hq]
  exact hc.mem g hg

/-- **no lost wake-up**: whenever work is queued, some worker is going to look at the queue
(it is idle, signalled or running) or some submitter still owes a `Signal`
(model without the spurious wake-up over-approximation; at least one worker) -/
theorem no_lost_wakeup (acts : List Act) (s : St) (h : run init acts = some s)
    (hn : ∀ n, Act.serve n ∈ acts → 1 ≤ n) (q : List Work) (hq : s.wq = some q) (hne : q ≠ []) :
    (∃ (i : Nat) (ws : WState), s.workers[i]? = some ws ∧ (ws = WState.idle ∨ ws = WState.waiting true ∨ ∃ w c, ws = WState.running w c)) ∨
    (∃ e ∈ s.inflight, e.needSignal = true) := by
  rcases (InvW.run InvW.init h hn).nlw q hq hne with ⟨ws, hws, ha⟩ | he
  · obtain ⟨i, hi⟩ := List.getElem?_of_mem hws
    exact Or.inl ⟨i, ws, hi, ha⟩
  · exact Or.inr he

/-- progress: a worker that looks at a non-empty open queue starts the first queued callback -/
theorem worker_takes_head (s : St) (i : Nat) (w : Work) (f : Nat) (fs : List Nat) (rest : List Work)
    (hq : s.wq = some (⟨w.wid, f :: fs⟩ :: rest)) (hw : s.workers[i]? = some .idle ∨ s.workers[i]? = some (.waiting true)) :
    ∃ s', (step s (.wStart i) = some s' ∨ step s (.wWake i) = some s') ∧
      s'.workers[i]? = some (.running ⟨w.wid, fs⟩ f) ∧ s'.started = s.started ++ [(w.wid, f)] := by
  have hlt : i < s.workers.length := by
    rcases hw with h | h <;> exact (List.getElem?_eq_some_iff.mp h).1
  refine ⟨relook s i, ?_, ?_, ?_⟩
  · rcases hw with h | h
    · left; rw [step_wStart, if_pos h]
    · right; rw [step_wWake, if_pos h]
  · simp [relook, hq, loopTop, takeNext, hlt]
  · simp [relook, hq, loopTop, takeNext, startedOf]

/-- **never stuck**: whenever work is queued, a step of the library itself is enabled that leads towards
it — a worker's first look at the queue, its return from `Wait` after a signal, the end of the callback
it is running (after which it looks at the queue again) — or a submitter is about to signal. Together
with `worker_takes_head` this is the progress half of "every accepted callback is started": no reachable
state has queued work and nobody who will ever look at it. -/
theorem never_stuck (acts : List Act) (s : St) (h : run init acts = some s)
    (hn : ∀ n, Act.serve n ∈ acts → 1 ≤ n) (q : List Work) (hq : s.wq = some q) (hne : q ≠ []) :
    (∃ i, (step s (.wStart i)).isSome ∨ (step s (.wWake i)).isSome ∨ (step s (.wDone i)).isSome) ∨
    (∃ e ∈ s.inflight, e.needSignal = true) := by
  rcases no_lost_wakeup acts s h hn q hq hne with ⟨i, ws, hi, hw⟩ | he
  · refine Or.inl ⟨i, ?_⟩
    rcases hw with rfl | rfl | ⟨w, c, rfl⟩
    · left; simp [step, hi]
    · right; left; simp [step, hi]
    · right; right
      simp only [step, hi]
      cases w.pending <;> simp
  · exact Or.inr he

/-- queued work items always hold a callback: the worker never pops an empty item -/
theorem queued_items_nonempty (acts : List Act) (s : St) (h : run init acts = some s) (q : List Work)
    (hq : s.wq = some q) : ∀ w ∈ q, w.pending ≠ [] :=
  QNE.reachable h q hq

/-- **one step to the next callback**: in every reachable state with queued work and a worker that is
going to look (idle, signalled, or finishing its callback), that worker's very next own step starts a
callback — the head of the queue, or the next one of the item it owns -/
theorem next_step_starts_a_callback (acts : List Act) (s : St) (h : run init acts = some s)
    (q : List Work) (hq : s.wq = some q) (hne : q ≠ []) (i : Nat) (ws : WState)
    (hi : s.workers[i]? = some ws)
    (hw : ws = WState.idle ∨ ws = WState.waiting true ∨ ∃ w c, ws = WState.running w c) :
    ∃ a s', (a = Act.wStart i ∨ a = Act.wWake i ∨ a = Act.wDone i) ∧ step s a = some s' ∧
      s'.started.length = s.started.length + 1 := by
  have hlt : i < s.workers.length := (List.getElem?_eq_some_iff.mp hi).1
  obtain ⟨w0, rest, rfl⟩ := List.exists_cons_of_ne_nil hne
  have hp := QNE.reachable h _ hq w0 List.mem_cons_self
  obtain ⟨f, fs, hf⟩ := List.exists_cons_of_ne_nil hp
  have hw0 : w0 = ⟨w0.wid, f :: fs⟩ := by cases w0; simp_all
  rw [hw0] at hq
  rcases hw with rfl | rfl | ⟨w, c, rfl⟩
  · refine ⟨.wStart i, relook s i, Or.inl rfl, by rw [step_wStart, if_pos hi], ?_⟩
    simp [relook, hq, loopTop_head, setWorker, startedOf]
  · refine ⟨.wWake i, relook s i, Or.inr (Or.inl rfl), by rw [step_wWake, if_pos hi], ?_⟩
    simp [relook, hq, loopTop_head, setWorker, startedOf]
  · cases hpw : w.pending with
    | cons g gs =>
      refine ⟨.wDone i, next s i w c g gs, Or.inr (Or.inr rfl), by simp [step, hi, hpw, next], ?_⟩
      simp [next, setWorker, startedOf]
    | nil =>
      refine ⟨.wDone i, relook (finish s i w c) i, Or.inr (Or.inr rfl), ?_, ?_⟩
      · rw [relook_finish]; simp [step, hi, hpw]
      · rw [relook_finish]; simp [hq, loopTop_head, setWorker, startedOf]

/-! ## non-vacuity: a group going idle and busy again keeps its order -/
example : ∃ s, run init [.serve 1, .subCheck 1 7 1 true, .subLock 1, .subSignal 1, .wStart 0, .wDone 0,
    .subCheck 1 7 2 true, .subLock 1, .subSignal 1, .wWake 0] = some s ∧ cbsOf 7 s.started = [1, 2] := by
  refine ⟨_, rfl, ?_⟩; rfl

end GoRes.Props.C02
