import GoRes.Model.Legacy
import GoRes.Lemmas.Legacy
/-! # C20 — legacy BadgerDB middleware serves the fold of the events it applied

`apply cfg stored ev` is the model of one event call on a resource using the deprecated
middleware (both packages; `cfg.strictDelete` is the one place where they differ).  The value
served by get and by `Value` is `served cfg stored`, a function of the committed database
value only — which is why it is the same after the database is reopened. -/
namespace GoRes.Props.C20
open GoRes GoRes.Legacy

/-- **an event that cannot be applied is inert**: it publishes nothing, runs no listener and
leaves the storage unchanged (index out of range, create on an existing resource, change or
remove on a missing resource without default, wrong resource type, negative index) -/
theorem failed_apply_inert (cfg : Cfg) (s : Option LVal) (e : Ev) (h : (apply cfg s e).2.failed = true) :
    (apply cfg s e).1 = s ∧ (apply cfg s e).2.published = false := by
  revert h
  cases e <;> simp only [apply] <;> repeat' split
  all_goals simp [Legacy.failure, nothing]

/-- more generally nothing changes without an event being published -/
theorem unpublished_inert (cfg : Cfg) (s : Option LVal) (e : Ev) (h : (apply cfg s e).2.published = false) :
    (apply cfg s e).1 = s := by
  revert h
  cases e <;> simp only [apply] <;> repeat' split
  all_goals simp [Legacy.failure, nothing]

theorem index_out_of_range (cfg : Cfg) (s : Option LVal) (l : List Str) (v : Str) (idx : Int)
    (hm : cfg.isModel = false) (hs : served cfg s = some (.coll l)) :
    ((l.length : Int) < idx → (apply cfg s (.add v idx)).2.failed = true) ∧
    ((l.length : Int) ≤ idx → (apply cfg s (.remove idx)).2.failed = true) := by
  constructor
  · intro hlt
    have h0 : ¬ idx < 0 := by omega
    have h1 : l.length < idx.toNat := by omega
    simp [apply, hm, hs, h0, h1, Legacy.failure]
  · intro hle
    have h0 : ¬ idx < 0 := by omega
    have h1 : l.length ≤ idx.toNat := by omega
    simp [apply, hm, hs, h0, h1, Legacy.failure]

theorem create_existing_fails (cfg : Cfg) (s : Option LVal) (v : LVal) (h : (served cfg s).isSome) :
    (apply cfg s (.create v)).2.failed = true := by
  have : s.isSome ∨ cfg.dflt.isSome := by
    unfold served at h
    cases s with
    | some x => exact Or.inl rfl
    | none => exact Or.inr h
  simp only [apply, if_pos this, Legacy.failure]

theorem change_missing_fails (cfg : Cfg) (props : List (Str × Option Str)) (hm : cfg.isModel = true)
    (hd : cfg.dflt = none) (hp : props ≠ []) : (apply cfg none (.change props)).2.failed = true := by
  have hp' : props.isEmpty = false := by cases props <;> simp_all
  simp [apply, hm, hp', served, hd, Legacy.failure]

/-- **the served value is the fold of the applied events**: failed and silent events can be dropped
from a history without changing what is served -/
def succeeded (cfg : Cfg) : Option LVal → List Ev → List Ev
  | _, [] => []
  | s, e :: es => if (apply cfg s e).2.published then e :: succeeded cfg (apply cfg s e).1 es else succeeded cfg s es

theorem served_is_fold (cfg : Cfg) (s : Option LVal) (evs : List Ev) :
    fold cfg s evs = fold cfg s (succeeded cfg s evs) := by
  induction evs generalizing s with
  | nil => rfl
  | cons e es ih =>
    simp only [succeeded]
    split
    · simp only [fold]; exact ih _
    · next hp =>
      have hp' : (apply cfg s e).2.published = false := by simpa using hp
      simp only [fold]
      rw [unpublished_inert cfg s e hp']
      exact ih _

/-- a successful change sets exactly the given keys (delete actions remove them) and keeps the others … -/
theorem change_applies (cfg : Cfg) (s : Option LVal) (m : List (Str × Str)) (props : List (Str × Option Str))
    (hm : cfg.isModel = true) (hs : served cfg s = some (.model m)) (hk : (props.map (·.1)).Nodup)
    (hpub : (apply cfg s (.change props)).2.published = true) :
    ∃ m', (apply cfg s (.change props)).1 = some (.model m') ∧
      ∀ k, mget m' k = (match props.find? (·.1 == k) with | some (_, v) => v | none => mget m k) := by
  have hmodel : (!cfg.isModel) = false := by simp [hm]
  simp only [apply, hmodel, hs] at hpub ⊢
  simp only [Bool.false_eq_true, if_false] at hpub ⊢
  split at hpub
  · simp [nothing] at hpub
  · next hne =>
    rw [if_neg hne]
    split at hpub
    · simp [nothing] at hpub
    · next hrev =>
      rw [if_neg hrev]
      refine ⟨(applyChange m props).1, rfl, ?_⟩
      intro k
      rw [mget_applyChange props m hk k]
      cases props.find? (·.1 == k) with
      | none => rfl
      | some p => rfl

/-- … **and the old values handed to the listeners are exactly the previous stored values** of the keys
that changed (`none` = the key did not exist) -/
theorem old_values_exact (cfg : Cfg) (s : Option LVal) (m : List (Str × Str)) (props : List (Str × Option Str))
    (hm : cfg.isModel = true) (hs : served cfg s = some (.model m)) (hk : (props.map (·.1)).Nodup) (hmk : (m.map (·.1)).Nodup)
    (k : Str) (ov : Option Str) (h : (k, ov) ∈ (apply cfg s (.change props)).2.old) :
    ov = mget m k ∧ (∃ v, (k, v) ∈ props ∧ v ≠ mget m k) := by
  have _ := hmk   -- not needed: `mget`/`mset`/`mdel` are consistent on models with repeated keys too
  have hmodel : (!cfg.isModel) = false := by simp [hm]
  simp only [apply, hmodel, hs] at h
  simp only [Bool.false_eq_true, if_false] at h
  split at h
  · simp [nothing] at h
  · split at h
    · simp [nothing] at h
    · exact mem_applyChange_rev props m hk k ov h

/-- a change that changes nothing publishes nothing -/
theorem change_nothing_silent (cfg : Cfg) (s : Option LVal) (m : List (Str × Str)) (props : List (Str × Option Str))
    (hm : cfg.isModel = true) (hs : served cfg s = some (.model m))
    (hsame : ∀ kv ∈ props, kv.2 = mget m kv.1) :
    (apply cfg s (.change props)).2.published = false := by
  have hmodel : (!cfg.isModel) = false := by simp [hm]
  simp only [apply, hmodel, hs, applyChange_same props m hsame]
  simp only [nothing, Bool.false_eq_true, if_false, List.isEmpty_nil, if_true]
  split <;> rfl

/-- **the data handed to listeners of a delete event is exactly the previous stored value** -/
theorem delete_data_exact (cfg : Cfg) (s : Option LVal) (h : (apply cfg s .delete).2.published = true) :
    (apply cfg s .delete).2.data = s ∧ (apply cfg s .delete).1 = none := by
  simp only [apply] at h ⊢
  split
  · next hc => simp [hc, Legacy.failure] at h
  · exact ⟨rfl, rfl⟩

/-- add and remove act on the served collection as list insertion and deletion -/
theorem add_remove_apply (cfg : Cfg) (s : Option LVal) (l : List Str) (v : Str) (i : Nat)
    (hm : cfg.isModel = false) (hs : served cfg s = some (.coll l)) :
    (i ≤ l.length → (apply cfg s (.add v i)).1 = some (.coll (l.insertIdx i v))) ∧
    (i < l.length → (apply cfg s (.remove i)).1 = some (.coll (l.eraseIdx i))) := by
  constructor
  · intro hi
    have h1 : ¬ l.length < i := by omega
    have h0 : ¬ (i : Int) < 0 := by omega
    simp [apply, hm, hs, h1, h0]
  · intro hi
    have h1 : ¬ l.length ≤ i := by omega
    have h0 : ¬ (i : Int) < 0 := by omega
    simp [apply, hm, hs, h1, h0]

/-! ## non-vacuity -/
example : (apply ⟨true, none, false⟩ (some (.model [([97], [49])])) (.change [([97], some [50]), ([98], none)])).2.old = [([97], some [49])] := by decide

end GoRes.Props.C20
