import GoRes.Model.Discipline
import GoRes.Model.Pool
import GoRes.Lemmas.Pool
/-! # C03 — Shutdown always completes, drains in-flight work, and allows restart
(partial: the model shows that only finitely many steps remain and none is blocked; real-time
bounds, callbacks that never return and the runtime's WaitGroup are outside the model) -/
namespace GoRes.Props.C03
open GoRes.Pool

/-- **closed stays closed**: once `close()` has set the queue to nil, nothing but the next
`Serve` makes it non-nil again — in particular not a submission that passed the state check
before `Shutdown` (it is refused under the lock) -/
theorem closed_stays_closed (s s' : St) (a : Act) (hs : step s a = some s') (hq : s.wq = none)
    (ha : ∀ n, a ≠ .serve n) : s'.wq = none := by
  cases step_Step hs with
  | serve n => exact absurd rfl (ha n)
  | lockAppend _ _ _ _ q _ hq' | lockNew _ _ _ _ q _ hq' => rw [hq] at hq'; cases hq'
  | wStart | wWake | wSpurious => rw [relook_of_closed _ hq]; rfl
  | doneLast => rw [relook_of_closed _ (by exact hq)]; rfl
  | closeLock => rfl
  | _ => exact hq

/-- a stopped service has a nil queue and no live worker -/
theorem stopped_is_quiet (acts : List Act) (s : St) (h : run init acts = some s) (hp : s.phase = .stopped) :
    s.wq = none ∧ s.workers.all (· = .exited) = true := by
  exact (Inv.reachable h).quiet hp

/-- **drained**: `Shutdown` returns (`shutdownDone`) only when every worker has exited, hence
when no callback is running -/
theorem drained (s s' : St) (hs : step s .shutdownDone = some s') :
    runningNow s = [] ∧ s'.phase = .stopped ∧ runningNow s' = [] := by
  cases step_Step hs with
  | shutdownDone _ _ hw =>
    have : runningNow s = [] := by
      simp only [runningNow, List.flatMap_eq_nil_iff]
      intro ws hws
      simp at hw
      rw [hw ws hws]; rfl
    exact ⟨this, rfl, this⟩

/-- **no callback starts afterwards**: once all workers have exited nothing starts until `Serve` -/
theorem no_start_after_exit (s s' : St) (a : Act) (hs : step s a = some s')
    (hw : s.workers.all (· = .exited) = true) (ha : ∀ n, a ≠ .serve n) : s'.started = s.started := by
  cases step_Step hs with
  | serve n => exact absurd rfl (ha n)
  | wStart _ h | wWake _ h | wSpurious _ h | doneNext _ _ _ _ _ h | doneLast _ _ _ h =>
    cases all_exited_getElem? hw h
  | _ => rfl

/-- remaining own steps of a worker until it has exited, once the queue is closed -/
def remaining : WState → Nat
  | .idle => 1
  | .waiting _ => 1
  | .running w _ => w.pending.length + 1
  | .exited => 0

def totalRemaining (s : St) : Nat := (s.workers.map remaining).sum

theorem totalRemaining_set (s : St) (i : Nat) (old ws : WState) (wq rw) (h : s.workers[i]? = some old) :
    totalRemaining (setWorker s i ws wq rw) + remaining old = totalRemaining s + remaining ws :=
  sum_map_set remaining s.workers i old ws h

/-- **bounded exit**: with the queue closed, no step of anybody increases the number of steps the
workers still need … -/
theorem exit_measure_nonincreasing (s s' : St) (a : Act) (hs : step s a = some s') (hq : s.wq = none)
    (ha : ∀ n, a ≠ .serve n) : totalRemaining s' ≤ totalRemaining s := by
  cases step_Step hs with
  | serve n => exact absurd rfl (ha n)
  | lockAppend _ _ _ _ q _ hq' | lockNew _ _ _ _ q _ hq' => rw [hq] at hq'; cases hq'
  | wStart _ h | wWake _ h | wSpurious _ h =>
    rw [relook_of_closed _ hq]
    have := totalRemaining_set s _ _ .exited none s.rwork h
    simp only [remaining] at this; omega
  | doneNext i w cb f fs h hp =>
    have := totalRemaining_set { s with finished := s.finished ++ [cb] } _ _ (.running { w with pending := fs } f) s.wq s.rwork h
    simp only [remaining, hp, List.length_cons] at this
    exact Nat.le_of_lt_succ (by simp only [next, totalRemaining] at *; omega)
  | doneLast i w cb h hp =>
    rw [relook_of_closed _ (by exact hq)]
    have := sum_map_set remaining s.workers i _ .exited h
    simp only [totalRemaining, setWorker_workers, finish, List.set_set]
    simp only [remaining] at this; omega
  | signalSome _ _ _ _ i _ hi =>
    have hi' := List.find?_some hi
    simp only [decide_eq_true_eq] at hi'
    have := sum_map_set remaining s.workers i _ (.waiting true) hi'
    simp only [totalRemaining]
    simp only [remaining] at this; omega
  | closeBroadcast =>
    apply Nat.le_of_eq
    simp only [totalRemaining, broadcast, List.map_map]
    congr 1
    apply List.map_congr_left
    intro ws _
    cases ws <;> rfl
  | _ => exact Nat.le_refl _

/-- … every own step of a worker strictly decreases it … -/
theorem own_step_decreases (s s' : St) (i : Nat) (a : Act) (hq : s.wq = none)
    (ha : a = .wStart i ∨ a = .wWake i ∨ a = .wDone i ∨ a = .wSpurious i) (hs : step s a = some s') :
    totalRemaining s' < totalRemaining s := by
  cases step_Step hs with
  | wStart _ h | wWake _ h | wSpurious _ h =>
    rw [relook_of_closed _ hq]
    have := totalRemaining_set s _ _ .exited none s.rwork h
    simp only [remaining] at this; omega
  | doneNext i w cb f fs h hp =>
    have := totalRemaining_set { s with finished := s.finished ++ [cb] } _ _ (.running { w with pending := fs } f) s.wq s.rwork h
    simp only [remaining, hp, List.length_cons] at this
    simp only [next, totalRemaining] at *; omega
  | doneLast i w cb h hp =>
    rw [relook_of_closed _ (by exact hq)]
    have := sum_map_set remaining s.workers i _ .exited h
    simp only [totalRemaining, setWorker_workers, finish, List.set_set]
    simp only [remaining] at this; omega
  | _ => simp at ha

/-- … and after the broadcast no worker is blocked: every worker that has not exited has an
enabled step (idle → start, signalled → wake, running → its callback returns), and none ever
waits unsignalled again -/
theorem no_worker_blocked (s : St) (hq : s.wq = none) (hb : ∀ ws ∈ s.workers, ws ≠ .waiting false)
    (i : Nat) (ws : WState) (hi : s.workers[i]? = some ws) (hne : ws ≠ .exited) :
    (∃ s', step s (.wStart i) = some s') ∨ (∃ s', step s (.wWake i) = some s') ∨ (∃ s', step s (.wDone i) = some s') := by
  have _ := hq
  cases ws with
  | idle => left; rw [step_wStart, if_pos hi]; exact ⟨_, rfl⟩
  | waiting b =>
    cases b with
    | false => exact absurd rfl (hb _ (List.mem_of_getElem? hi))
    | true => right; left; rw [step_wWake, if_pos hi]; exact ⟨_, rfl⟩
  | running w c =>
    right; right
    simp only [step, hi]
    split <;> exact ⟨_, rfl⟩
  | exited => exact absurd rfl hne

theorem broadcast_clears_waiting (s s' : St) (hs : step s .closeBroadcast = some s') :
    ∀ ws ∈ s'.workers, ws ≠ .waiting false := by
  cases step_Step hs with
  | closeBroadcast =>
    intro ws hws
    simp only [broadcast, List.mem_map] at hws
    obtain ⟨x, _, rfl⟩ := hws
    cases x <;> simp

theorem unsignalled_never_returns (s s' : St) (a : Act) (hs : step s a = some s') (hq : s.wq = none)
    (ha : ∀ n, a ≠ .serve n) (hb : ∀ ws ∈ s.workers, ws ≠ .waiting false) :
    ∀ ws ∈ s'.workers, ws ≠ .waiting false := by
  cases step_Step hs with
  | serve n => exact absurd rfl (ha n)
  | lockAppend _ _ _ _ q _ hq' | lockNew _ _ _ _ q _ hq' => rw [hq] at hq'; cases hq'
  | wStart _ h | wWake _ h | wSpurious _ h =>
    rw [relook_of_closed _ hq]
    intro ws hws
    rcases mem_set_cases hws with rfl | hws
    · simp
    · exact hb _ hws
  | doneNext i w cb f fs h hp =>
    intro ws hws
    rcases mem_set_cases hws with rfl | hws
    · simp
    · exact hb _ hws
  | doneLast i w cb h hp =>
    rw [relook_of_closed _ (by exact hq)]
    intro ws hws
    simp only [setWorker_workers, finish, List.set_set] at hws
    rcases mem_set_cases hws with rfl | hws
    · simp
    · exact hb _ hws
  | signalSome _ _ _ _ i _ hi =>
    intro ws hws
    rcases mem_set_cases hws with rfl | hws
    · simp
    · exact hb _ hws
  | closeBroadcast =>
    intro ws hws
    simp only [broadcast, List.mem_map] at hws
    obtain ⟨x, _, rfl⟩ := hws
    cases x <;> simp
  | _ => exact hb

/-- **restart**: a stopped service can be served again, with a fresh open queue and `n` new workers;
all invariants of C01/C02 are stated for every reachable state, so they hold again after it -/
theorem restart (acts : List Act) (s : St) (h : run init acts = some s) (hp : s.phase = .stopped) (n : Nat) :
    ∃ s', step s (.serve n) = some s' ∧ s'.phase = .started ∧ s'.wq = some [] ∧ s'.rwork = [] ∧
      s'.workers = List.replicate n .idle := by
  have hq := (Inv.reachable h).quiet hp
  exact ⟨served s n, by rw [step_serve, if_pos ⟨hp, hq.2⟩]; rfl, rfl, rfl, rfl, rfl⟩

/-! ## start/stop against the source (regenerated on every run)

`Shutdown` clears `nc` and `inCh`.  The model lets `Shutdown` run as soon as the service counts as
started, which in the Go code is *before* `serve` has subscribed: `serve` and `subscribe` must
therefore not read those fields from then on (a `Shutdown` completing in that window used to leave
`Serve` with a nil connection), and the queue state is reset before the first worker is started. -/

open GoRes.Discipline in
theorem serve_does_not_touch_cleared_fields_once_started :
    (Generated.sourceOrder.lookup "Service.serve").map serveOrderOk = some true ∧
    (Generated.sourceOrder.lookup "Service.subscribe").map subscribeOrderOk = some true := by
  decide +kernel

open GoRes.Discipline in
theorem shutdown_cas_first_stopped_last :
    (Generated.sourceOrder.lookup "Service.Shutdown").map shutdownOrderOk = some true := by
  decide +kernel

/-! ## the window the fix closed, as a concrete schedule: a submission passes the state check,
`Shutdown` closes the queue while a worker is busy, then the submission takes the lock — it is
refused, the worker exits, `Shutdown` completes -/
example : ∃ s, run init [.serve 1, .subCheck 1 7 1 true, .subLock 1, .subSignal 1, .wStart 0,
    .subCheck 2 8 2 true, .shutdownCas, .closeLock, .closeBroadcast, .subLock 2, .wDone 0, .shutdownDone] = some s ∧
    s.phase = .stopped ∧ s.wq = none ∧ s.workers = [.exited] ∧ s.started = [(7, 1)] := by
  refine ⟨_, rfl, ?_⟩; decide


/-! ## the lifecycle state machine, read off the source

`Generated.stateOps` (rewritten from /repo on every run) lists every `sync/atomic` operation on
`Service.state`.  The lifecycle is stopped → starting → started → stopping → stopped, and each move
has one owner: the two transitions that several goroutines may attempt at once (entering `starting`,
entering `stopping`) are compare-and-swap from exactly the state before, so at most one caller wins
and a loser changes nothing ("refused as not stopped / not started"); the other two are plain stores
made by the winner of the preceding compare-and-swap (`serve` publishes `started`; `Shutdown`
publishes `stopped`; a `Serve` that fails before anything was started gives `stopped` back).  Every
other function only loads the state.  A `Swap`, an `Add`, a store from another function, or a
compare-and-swap between other values is not in the table. -/

def stateOpOk (o : String × String × String) : Bool :=
  let (fn, op, args) := o
  if op == "LoadInt32" then true
  else if op == "CompareAndSwapInt32" then
    ((fn == "Service.Serve" || fn == "Service.ListenAndServe") && args == "stateStopped,stateStarting") ||
    (fn == "Service.Shutdown" && args == "stateStarted,stateStopping")
  else if op == "StoreInt32" then
    (fn == "Service.serve" && (args == "stateStarted" || args == "stateStopped")) ||
    (fn == "Service.ListenAndServe" && args == "stateStopped") ||
    (fn == "Service.Shutdown" && args == "stateStopped")
  else false

/-- the first operation of `fn` on the state -/
def firstStateOp (fn : String) : Option (String × String) :=
  (Generated.stateOps.find? (·.1 == fn)).map (·.2)

theorem lifecycle_state_machine :
    Generated.stateOps.all stateOpOk = true ∧
    firstStateOp "Service.Serve" = some ("CompareAndSwapInt32", "stateStopped,stateStarting") ∧
    firstStateOp "Service.ListenAndServe" = some ("CompareAndSwapInt32", "stateStopped,stateStarting") ∧
    firstStateOp "Service.Shutdown" = some ("CompareAndSwapInt32", "stateStarted,stateStopping") ∧
    -- a start that fails before anything runs gives `stopped` back, on both paths
    Generated.stateOps.contains ("Service.ListenAndServe", "StoreInt32", "stateStopped") = true ∧
    Generated.stateOps.contains ("Service.serve", "StoreInt32", "stateStopped") = true ∧
    Generated.stateOps.contains ("Service.serve", "StoreInt32", "stateStarted") = true ∧
    Generated.stateOps.contains ("Service.Shutdown", "StoreInt32", "stateStopped") = true ∧
    -- the functions that act on a running service look at the state (and only look)
    (["Service.runWith", "Service.Reset", "Service.ResetAll", "Service.TokenEvent", "Service.TokenEventWithID", "Service.TokenReset"].all
      fun fn => firstStateOp fn == some ("LoadInt32", "")) = true := by
  decide +kernel

/-- the model's side of the same machine: `Serve` is enabled in the stopped phase only and
`Shutdown` in the started phase only; a refused call leaves the state as it was (there is no step) -/
theorem serve_and_shutdown_refused_elsewhere (s : St) (n : Nat) :
    (s.phase ≠ .stopped → step s (.serve n) = none) ∧ (s.phase ≠ .started → step s .shutdownCas = none) := by
  constructor <;> intro h <;> simp [step, h]

/-! ## nothing foreign is called with the service mutex held

`Generated.heldCalls` (rewritten from /repo on every run) lists every call that leaves package res -
a method of another package's value or of an interface (the connection, a subscription, the logger),
a function value (user callbacks), the builtin `close` - made while the service mutex is held, or
held on some paths.  The bounded-time clause of the property rests on this table being what it is:
a worker waits on the condition variable (which releases the mutex) and signs off from the wait
group; nothing else.  In particular the connection is closed, messages are published, loggers and
user callbacks are called, and channels are closed *outside* the mutex: a `Close` that waits for a
delivery goroutine which in turn waits for the mutex cannot deadlock `Shutdown`. -/

def heldCallOk (c : String × String × String) : Bool :=
  (c.1 == "Service.startWorker" && c.2.1 == "s.workcond.Wait" && c.2.2 == "L") ||
  (c.1 == "Service.startWorker" && c.2.1 == "s.wg.Done")

theorem nothing_foreign_under_the_mutex :
    Generated.heldCalls.all heldCallOk = true ∧
    -- the worker does wait with the mutex held (`Wait` must be called that way)
    Generated.heldCalls.contains ("Service.startWorker", "s.workcond.Wait", "L") = true := by
  decide +kernel

end GoRes.Props.C03
