import GoRes.Model.Pool
import GoRes.Lemmas.Pool
/-! # C03 — Shutdown always completes, drains in-flight work, and allows restart
(partial: the model shows that only finitely many steps remain and none is blocked; real-time
bounds, callbacks that never return and the runtime's WaitGroup are outside the model) -/
namespace GoRes.Props.C03
open GoRes.Pool

/-- **closed stays closed**: once `close()` has set the queue to nil, nothing but the next
`Serve` makes it non-nil again — in particular not a submission that passed the state check
before `Shutdown` (it is refused under the lock) -/
theorem closed_stays_closed (s s' : St) (a : Act) (hs : step s a = some s') (hq : s.wq = none)
    (ha : ∀ n, a ≠ .serve n) : s'.wq = none := by
  sorry

/-- a stopped service has a nil queue and no live worker -/
theorem stopped_is_quiet (acts : List Act) (s : St) (h : run init acts = some s) (hp : s.phase = .stopped) :
    s.wq = none ∧ s.workers.all (· = .exited) = true := by
  sorry

/-- **drained**: `Shutdown` returns (`shutdownDone`) only when every worker has exited, hence
when no callback is running -/
theorem drained (s s' : St) (hs : step s .shutdownDone = some s') :
    runningNow s = [] ∧ s'.phase = .stopped ∧ runningNow s' = [] := by
  sorry

/-- **no callback starts afterwards**: once all workers have exited nothing starts until `Serve` -/
theorem no_start_after_exit (s s' : St) (a : Act) (hs : step s a = some s')
    (hw : s.workers.all (· = .exited) = true) (ha : ∀ n, a ≠ .serve n) : s'.started = s.started := by
  sorry

/-- remaining own steps of a worker until it has exited, once the queue is closed -/
def remaining : WState → Nat
  | .idle => 1
  | .waiting _ => 1
  | .running w _ => w.pending.length + 1
  | .exited => 0

def totalRemaining (s : St) : Nat := (s.workers.map remaining).sum

/-- **bounded exit**: with the queue closed, no step of anybody increases the number of steps the
workers still need … -/
theorem exit_measure_nonincreasing (s s' : St) (a : Act) (hs : step s a = some s') (hq : s.wq = none)
    (ha : ∀ n, a ≠ .serve n) : totalRemaining s' ≤ totalRemaining s := by
  sorry

/-- … every own step of a worker strictly decreases it … -/
theorem own_step_decreases (s s' : St) (i : Nat) (a : Act) (hq : s.wq = none)
    (ha : a = .wStart i ∨ a = .wWake i ∨ a = .wDone i ∨ a = .wSpurious i) (hs : step s a = some s') :
    totalRemaining s' < totalRemaining s := by
  sorry

/-- … and after the broadcast no worker is blocked: every worker that has not exited has an
enabled step (idle → start, signalled → wake, running → its callback returns), and none ever
waits unsignalled again -/
theorem no_worker_blocked (s : St) (hq : s.wq = none) (hb : ∀ ws ∈ s.workers, ws ≠ .waiting false)
    (i : Nat) (ws : WState) (hi : s.workers[i]? = some ws) (hne : ws ≠ .exited) :
    (∃ s', step s (.wStart i) = some s') ∨ (∃ s', step s (.wWake i) = some s') ∨ (∃ s', step s (.wDone i) = some s') := by
  sorry

theorem broadcast_clears_waiting (s s' : St) (hs : step s .closeBroadcast = some s') :
    ∀ ws ∈ s'.workers, ws ≠ .waiting false := by
  sorry

theorem unsignalled_never_returns (s s' : St) (a : Act) (hs : step s a = some s') (hq : s.wq = none)
    (ha : ∀ n, a ≠ .serve n) (hb : ∀ ws ∈ s.workers, ws ≠ .waiting false) :
    ∀ ws ∈ s'.workers, ws ≠ .waiting false := by
  sorry

/-- **restart**: a stopped service can be served again, with a fresh open queue and `n` new workers;
all invariants of C01/C02 are stated for every reachable state, so they hold again after it -/
theorem restart (acts : List Act) (s : St) (h : run init acts = some s) (hp : s.phase = .stopped) (n : Nat) :
    ∃ s', step s (.serve n) = some s' ∧ s'.phase = .started ∧ s'.wq = some [] ∧ s'.rwork = [] ∧
      s'.workers = List.replicate n .idle := by
  sorry

/-! ## the window the fix closed, as a concrete schedule: a submission passes the state check,
`Shutdown` closes the queue while a worker is busy, then the submission takes the lock — it is
refused, the worker exits, `Shutdown` completes -/
example : ∃ s, run init [.serve 1, .subCheck 1 7 1 true, .subLock 1, .subSignal 1, .wStart 0,
    .subCheck 2 8 2 true, .shutdownCas, .closeLock, .closeBroadcast, .subLock 2, .wDone 0, .shutdownDone] = some s ∧
    s.phase = .stopped ∧ s.wq = none ∧ s.workers = [.exited] ∧ s.started = [(7, 1)] := by
  refine ⟨_, rfl, ?_⟩; decide

end GoRes.Props.C03
