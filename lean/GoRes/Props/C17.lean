import GoRes.Model.Pattern
import GoRes.Lemmas.Pattern
/-! # C17 — pattern operations agree with one token-wise grammar

Property theorems only (helper lemmas are in `Lemmas/Pattern.lean`).  The
statements quantify over *all* token lists / byte strings; `render` turns a token
list into the Go string the implementation sees, so
`«matches» (render pt) (render st)` is literally the model of
`Pattern(p).Matches(s)`.  -/
namespace GoRes.Props.C17
open GoRes GoRes.Pattern

/-- Validity is exactly "the tokeniser accepts it": one grammar for `IsValid`. -/
theorem isValid_iff_parse (p : Str) : isValid p = (parse p).isSome :=
  isValid_eq_parse p

/-- every well-formed token list is what the parser reads back from its rendering -/
theorem parse_render (ts : List Tok) (h : wfPat ts = true) (hne : ts ≠ []) : parse (render ts) = some ts :=
  parse_render_of_wf ts h hne

/-- `Matches` is the token-wise relation, also when the right-hand side is itself a pattern. -/
theorem matches_spec (pt st : List Tok) (hp : wfPat pt = true) (hs : wfPat st = true) :
    «matches» (render pt) (render st) = tokMatches pt st :=
  matchesLoop_spec pt st hp (wfPat_all_ok hs)

/-- `Values` is the token-wise extraction on concrete names. -/
theorem values_spec (pt st : List Tok) (hp : wfPat pt = true) (hs : isName st = true) :
    values (render pt) (render st) = tokValues pt st [] :=
  valuesLoop_spec pt st [] hp (isName_sOk hs)

/-- a valid pattern matches a name exactly when extraction succeeds -/
theorem matches_iff_values (pt st : List Tok) (hp : wfPat pt = true) (hs : isName st = true) :
    «matches» (render pt) (render st) = (values (render pt) (render st)).isSome := by
  rw [matches_spec pt st hp (wfPat_of_isName hs), values_spec pt st hp hs]
  exact tokMatches_eq_tokValues_isSome pt st [] (isName_ne_full hs)

/-- extracted values substituted back give a pattern that still matches the name,
and give the name itself when the pattern has no anonymous wildcard.
(`distinctTags` is what registration demands; with a repeated tag the Go map can
hold only the last value and the law is false — see DESIGN.md.) -/
theorem replace_values_matches (pt st : List Tok) (m : List (Str × Str))
    (hp : wfPat pt = true) (hs : isName st = true) (hd : distinctTags pt = true)
    (hv : values (render pt) (render st) = some m) :
    «matches» (replaceTags (render pt) m) (render st) = true ∧
    (hasAnon pt = false → replaceTags (render pt) m = render st) :=
  replace_values_tok pt st m hp hs hd hv

/-- a pattern covers another pattern exactly when every name of the second matches the first -/
theorem covers_iff (pt qt : List Tok) (hp : wfPat pt = true) (hq : wfPat qt = true) (hne : qt ≠ []) :
    «matches» (render pt) (render qt) = true ↔
      ∀ st, isName st = true → «matches» (render qt) (render st) = true → «matches» (render pt) (render st) = true :=
  covers_tok pt qt hp hq hne

/-- `IndexWildcard` is the byte offset of the first wildcard token -/
def firstWild : List Tok → Nat → Int
  | [], _ => -1
  | .lit s :: r, off => firstWild r (off + s.length + 1)
  | _ :: _, off => off

theorem indexWildcard_spec (pt : List Tok) (hp : wfPat pt = true) :
    indexWildcard (render pt) = firstWild pt 0 := by
  have h : ∀ ts off, firstWild ts off = firstWildL ts off := by
    intro ts
    induction ts with
    | nil => intro off; rfl
    | cons t r ih => intro off; cases t <;> simp [firstWild, firstWildL, ih]
  rw [h]
  exact iwLoop_spec pt 0 hp

/-- validators are consistent: a path is a wildcard-free pattern; a valid name part is a
valid one-token path and a valid resource id; a non-empty path is a valid resource id -/
theorem isValidPath_spec (p : Str) :
    isValidPath p = (p.isEmpty || match parse p with
      | some ts => ts.all (fun t => match t with | .lit _ => true | _ => false)
      | none => false) :=
  isValidPath_eq p

theorem part_is_rid (p : Str) (h : isValidPart p = true) : isValidRID p = true :=
  isValidPart_rid p h

theorem path_is_rid (p : Str) (h : isValidPath p = true) (hne : p ≠ []) : isValidRID p = true :=
  isValidPath_rid p h hne

/-- a name (what routing accepts) is a valid resource id -/
theorem name_is_rid (st : List Tok) (hs : isName st = true) : isValidRID (render st) = true :=
  name_rid st ((isName_iff st).1 hs).1 ((isName_iff st).1 hs).2

/-- `IDTransformer`: id → resource id (ReplaceTag) → id (the tag's value) is the identity for
every id that is a valid name part -/
theorem id_roundtrip (pt : List Tok) (t id : Str) (hp : wfPat pt = true) (hd : distinctTags pt = true)
    (ht : t ∈ tagsOf pt) (hid : isValidPart id = true) :
    ∃ m, values (render pt) (replaceTag (render pt) t id) = some m ∧ mapGet m t = some id :=
  id_roundtrip_tok pt t id hp hd ht hid

/-! ## non-vacuity: the hypotheses are met by concrete non-trivial inputs -/
-- a=97 b=98 c=99 x=120 '$'=36 '.'=46 '>'=62
example : wfPat [.lit [97], .tag [120], .lit [98, 36, 99], .full] = true := by decide
example : isName [.lit [97], .lit [97, 36, 98]] = true := by decide

-- Go-level behaviour on concrete byte strings
attribute [local simp] Ch.dot Ch.dollar Ch.star Ch.gt Ch.qmark
set_option linter.unusedSimpArgs false
-- "a$b" vs "aXY": a `$` in the middle of a token is an ordinary byte
example : «matches» [97, 36, 98] [97, 88, 89] = false := by
  simp [«matches», matchesLoop]
-- "a.$x.>" matches "a.b.c.d"
example : «matches» [97, 46, 36, 120, 46, 62] [97, 46, 98, 46, 99, 46, 100] = true := by
  simp [«matches», matchesLoop, skipTok]
-- "a.$x.>" does not match "a.b" (`>` needs at least one token) nor "b.c.d"
example : «matches» [97, 46, 36, 120, 46, 62] [97, 46, 98] = false := by
  simp [«matches», matchesLoop, skipTok]
example : «matches» [97, 46, 36, 120, 46, 62] [98, 46, 99, 46, 100] = false := by
  simp [«matches», matchesLoop, skipTok]
-- "a.$x.b" on "a.c.b" extracts x = "c"
example : values [97, 46, 36, 120, 46, 98] [97, 46, 99, 46, 98] = some [([120], [99])] := by
  simp [values, valuesLoop, valuesLit, skipTok, takeTok, mapSet]
example : isValid [97, 46, 36, 120, 46, 62] = true := by decide
example : isValid [97, 46, 62, 46, 98] = false := by decide        -- "a.>.b"
example : isValid [97, 46, 36, 36] = false := by decide             -- "a.$$": empty tag
example : parse [97, 46, 36, 120, 46, 62] = some [.lit [97], .tag [120], .full] := by decide
example : render [.lit [97], .tag [120], .lit [98, 36, 99], .full]
    = [97, 46, 36, 120, 46, 98, 36, 99, 46, 62] := by decide
example : indexWildcard [97, 98, 46, 36, 120] = 3 := by decide     -- "ab.$x"
example : isValidPath [97, 46, 98, 36] = true := by decide          -- "a.b$"
example : isValidPart [36, 120] = true := by decide                 -- "$x" is a valid id part

-- hypotheses of `matches_spec` / `values_spec` / `matches_iff_values`
example : wfPat [.lit [97], .tag [120], .star, .lit [98]] = true ∧
    isName [.lit [97], .lit [99], .lit [100], .lit [98]] = true ∧
    tokMatches [.lit [97], .tag [120], .star, .lit [98]]
      [.lit [97], .lit [99], .lit [100], .lit [98]] = true := by decide

-- hypotheses of `replace_values_matches`: pattern "a.$x.b", name "a.c.b", m = {x ↦ c};
-- the conclusion is then the concrete statement `ReplaceTags` gives back "a.c.b"
example : replaceTags [97, 46, 36, 120, 46, 98] [([120], [99])] = [97, 46, 99, 46, 98] := by
  have h := replace_values_matches [.lit [97], .tag [120], .lit [98]]
    [.lit [97], .lit [99], .lit [98]] [([120], [99])] (by decide) (by decide) (by decide)
    (by simp [render, joinDots, values, valuesLoop, valuesLit, skipTok, takeTok, mapSet])
  exact h.2 (by decide)

-- hypotheses of `covers_iff`: "a.>" covers "a.$x.*"
example : ∀ st, isName st = true →
    «matches» (render [.lit [97], .tag [120], .star]) (render st) = true →
    «matches» (render [.lit [97], .full]) (render st) = true :=
  (covers_iff [.lit [97], .full] [.lit [97], .tag [120], .star] (by decide) (by decide)
    (by simp)).1 (by simp [render, joinDots, «matches», matchesLoop, skipTok])

-- hypotheses of `id_roundtrip`: pattern "a.$x.$y", tag "y", id "$1" (ids may start with `$`)
example : ∃ m, values (render [.lit [97], .tag [120], .tag [121]])
      (replaceTag (render [.lit [97], .tag [120], .tag [121]]) [121] [36, 49]) = some m ∧
    mapGet m [121] = some [36, 49] :=
  id_roundtrip [.lit [97], .tag [120], .tag [121]] [121] [36, 49] (by decide) (by decide)
    (by simp [tagsOf]) (by decide)

-- `distinctTags` cannot be dropped from `replace_values_matches`: with "$x.$x" on "a.b" the
-- map keeps only x ↦ b, and the substituted pattern "b.b" no longer matches "a.b"
example : wfPat [.tag [120], .tag [120]] = true ∧ distinctTags [.tag [120], .tag [120]] = false := by
  decide
example : values [36, 120, 46, 36, 120] [97, 46, 98] = some [([120], [98])] := by
  simp [values, valuesLoop, valuesLit, skipTok, takeTok, mapSet]
example : «matches» (replaceTags [36, 120, 46, 36, 120] [([120], [98])]) [97, 46, 98] = false := by
  simp [replaceTags, replace, replaceLoop, skipTok, takeTok, mapGet, «matches», matchesLoop]

end GoRes.Props.C17
