import GoRes.Model.Pattern
import GoRes.Lemmas.Pattern
/-! # C17 — pattern operations agree with one token-wise grammar

Property theorems only (helper lemmas are in `Lemmas/Pattern.lean`).  The
statements quantify over *all* token lists / byte strings; `render` turns a token
list into the Go string the implementation sees, so
`«matches» (render pt) (render st)` is literally the model of
`Pattern(p).Matches(s)`.  -/
namespace GoRes.Props.C17
open GoRes GoRes.Pattern

/-- Validity is exactly "the tokeniser accepts it": one grammar for `IsValid`. -/
theorem isValid_iff_parse (p : Str) : isValid p = (parse p).isSome := by
  sorry

/-- every well-formed token list is what the parser reads back from its rendering -/
theorem parse_render (ts : List Tok) (h : wfPat ts = true) (hne : ts ≠ []) : parse (render ts) = some ts := by
  sorry

/-- `Matches` is the token-wise relation, also when the right-hand side is itself a pattern. -/
theorem matches_spec (pt st : List Tok) (hp : wfPat pt = true) (hs : wfPat st = true) :
    «matches» (render pt) (render st) = tokMatches pt st := by
  sorry

/-- `Values` is the token-wise extraction on concrete names. -/
theorem values_spec (pt st : List Tok) (hp : wfPat pt = true) (hs : isName st = true) :
    values (render pt) (render st) = tokValues pt st [] := by
  sorry

/-- a valid pattern matches a name exactly when extraction succeeds -/
theorem matches_iff_values (pt st : List Tok) (hp : wfPat pt = true) (hs : isName st = true) :
    «matches» (render pt) (render st) = (values (render pt) (render st)).isSome := by
  sorry

/-- extracted values substituted back give a pattern that still matches the name,
and give the name itself when the pattern has no anonymous wildcard.
(`distinctTags` is what registration demands; with a repeated tag the Go map can
hold only the last value and the law is false — see DESIGN.md.) -/
theorem replace_values_matches (pt st : List Tok) (m : List (Str × Str))
    (hp : wfPat pt = true) (hs : isName st = true) (hd : distinctTags pt = true)
    (hv : values (render pt) (render st) = some m) :
    «matches» (replaceTags (render pt) m) (render st) = true ∧
    (hasAnon pt = false → replaceTags (render pt) m = render st) := by
  sorry

/-- a pattern covers another pattern exactly when every name of the second matches the first -/
theorem covers_iff (pt qt : List Tok) (hp : wfPat pt = true) (hq : wfPat qt = true) (hne : qt ≠ []) :
    «matches» (render pt) (render qt) = true ↔
      ∀ st, isName st = true → «matches» (render qt) (render st) = true → «matches» (render pt) (render st) = true := by
  sorry

/-- `IndexWildcard` is the byte offset of the first wildcard token -/
def firstWild : List Tok → Nat → Int
  | [], _ => -1
  | .lit s :: r, off => firstWild r (off + s.length + 1)
  | _ :: _, off => off

theorem indexWildcard_spec (pt : List Tok) (hp : wfPat pt = true) :
    indexWildcard (render pt) = firstWild pt 0 := by
  sorry

/-- validators are consistent: a path is a wildcard-free pattern; a valid name part is a
valid one-token path and a valid resource id; a non-empty path is a valid resource id -/
theorem isValidPath_spec (p : Str) :
    isValidPath p = (p.isEmpty || match parse p with
      | some ts => ts.all (fun t => match t with | .lit _ => true | _ => false)
      | none => false) := by
  sorry

theorem part_is_rid (p : Str) (h : isValidPart p = true) : isValidRID p = true := by
  sorry

theorem path_is_rid (p : Str) (h : isValidPath p = true) (hne : p ≠ []) : isValidRID p = true := by
  sorry

/-- a name (what routing accepts) is a valid resource id -/
theorem name_is_rid (st : List Tok) (hs : isName st = true) : isValidRID (render st) = true := by
  sorry

/-- `IDTransformer`: id → resource id (ReplaceTag) → id (the tag's value) is the identity for
every id that is a valid name part -/
theorem id_roundtrip (pt : List Tok) (t id : Str) (hp : wfPat pt = true) (hd : distinctTags pt = true)
    (ht : t ∈ tagsOf pt) (hid : isValidPart id = true) :
    ∃ m, values (render pt) (replaceTag (render pt) t id) = some m ∧ mapGet m t = some id := by
  sorry

/-! ## non-vacuity: the hypotheses are met by concrete non-trivial inputs -/
-- a=97 b=98 c=99 x=120 '$'=36 '.'=46 '>'=62
example : wfPat [.lit [97], .tag [120], .lit [98, 36, 99], .full] = true := by decide
example : isName [.lit [97], .lit [97, 36, 98]] = true := by decide

end GoRes.Props.C17
