import GoRes.Model.StoreMap
import GoRes.Lemmas.StoreMap
import GoRes.Lemmas.Txn
import GoRes.Generated.Access
/-! # C12 — acknowledged writes survive a crash; Init seeds once; indexes rebuild
(partial: BadgerDB's own atomicity and durability of one `Update` transaction, and the OS, are
trusted; the crash harness kills a real process at the instrumented points and compares the
reopened database with `recovered`) -/
namespace GoRes.Props.C12
open GoRes GoRes.Index GoRes.StoreMap

variable {V : Type}

/-- **durability at the level of committed transactions**: after a crash following `n` commits,
the value of every id is the one written by the last of those commits that touched it —
`recovered` is by definition the fold of the committed prefix; what is proved is that a later
transaction cannot disturb an earlier acknowledged one: cutting later only adds commits -/
theorem recovered_step (d : Disk V) (w : List (Txn V)) (n : Nat) (t : Txn V) (h : w[n]? = some t) :
    recovered d w (n + 1) = commit (recovered d w n) t := by
  simp [recovered, List.take_add_one, h, List.foldl_append]

/-- the transaction in flight is either fully applied or absent: the state after a crash at any
point is the state after some prefix of the workload -/
theorem all_or_nothing (d : Disk V) (w : List (Txn V)) (n : Nat) :
    ∃ k, k ≤ w.length ∧ recovered d w n = recovered d w k := by
  by_cases hn : n ≤ w.length
  · exact ⟨n, hn, rfl⟩
  · refine ⟨w.length, Nat.le_refl _, ?_⟩
    simp only [recovered]
    rw [List.take_of_length_le (by omega), List.take_of_length_le (Nat.le_refl _)]

/-- **Init seeds exactly once**: once the marker is committed every later Init is the identity —
seeds deleted later are never resurrected, nothing is duplicated … -/
theorem init_once (seeds seeds' : List (Bytes × V)) (d : Disk V) (w : List (Txn V))
    (hw : ∀ t ∈ w, ∀ s, t ≠ .init s) :
    commit (w.foldl commit (initOnce seeds d)) (.init seeds') = w.foldl commit (initOnce seeds d) := by
  have _ := hw  -- (holds for every workload: a later Init is the identity as well)
  exact initOnce_of_marker seeds' _ (foldl_commit_marker w _ (initOnce_marker seeds d))

/-- … never half-seeding: Init is one transaction, so before it the marker is unset and no seed
was written by it, after it all missing seeds and the marker are there -/
theorem init_complete (seeds : List (Bytes × V)) (d : Disk V) (hm : d.marker = false)
    (hs : (seeds.map (·.1)).Nodup) :
    (initOnce seeds d).marker = true ∧
    ∀ id v, (id, v) ∈ seeds → vget (initOnce seeds d).vals id = (match vget d.vals id with | some old => some old | none => some v) := by
  refine ⟨initOnce_marker seeds d, ?_⟩
  intro id v hmem
  rw [initOnce_vals seeds d hm, (mem_iff_vget seeds hs id v).1 hmem]
  cases vget d.vals id <;> rfl

/-- Init never overwrites or removes an existing value -/
theorem init_preserves (seeds : List (Bytes × V)) (d : Disk V) (id : Bytes) (v : V) (h : vget d.vals id = some v) :
    vget (initOnce seeds d).vals id = some v := by
  cases hm : d.marker with
  | true => rw [initOnce_of_marker seeds d hm]; exact h
  | false => rw [initOnce_vals seeds d hm, h]; rfl

/-- **RebuildIndexes is exact**, whatever garbage the index held before: afterwards the keys of
every index are exactly the image of the stored values -/
theorem rebuild_exact (idxs : List (Idx V)) (vals : List (Bytes × V)) (db : DB)
    (hd : (vals.map (·.1)).Nodup)
    (hnames : (idxs.map (·.name)).Pairwise (fun a b => ¬ (getQuery a []).isPrefixOf (getQuery b []) ∧ ¬ (getQuery b []).isPrefixOf (getQuery a [])))
    (ix : Idx V) (hix : ix ∈ idxs) (k : Bytes) :
    k ∈ keysOf ix.name (rebuild idxs vals db) ↔ ∃ e ∈ entriesOf ix vals, k = getKey ix.name e.1 e.2 := by
  rw [← idxSpec_iff_entries ix vals hd]
  have h := rebuild_fold_inv idxs hnames vals [] _ (by simpa using hd) (by
    intro ix' hix' k'
    constructor
    · intro h; exact absurd h (keysOf_cleared idxs db ix' hix' k')
    · rintro ⟨id, key, h, _⟩; simp at h) ix hix k
  rw [List.nil_append] at h
  exact h

/-! ## Init against concurrent writers (`Model/Txn.lean`: BadgerDB's optimistic transactions)

`others` is any sequence of writes (creates, updates, deletes of any ids, each acknowledged) that
commit while Init's transaction is open — between its reads and its commit. -/

/-- **a failed Init changes nothing and notifies nobody** (all-or-nothing, never half-seeding) -/
theorem init_failed_inert (db : Txn.DB V) (marker : Txn.Key) (mark : V) (seeds : List (Txn.Key × V))
    (others : List (Txn.Key × Option V))
    (h : (Txn.initRun db marker mark seeds others).2.1 = false) :
    (Txn.initRun db marker mark seeds others).1.vers = (db.putAll others).vers ∧
    (Txn.initRun db marker mark seeds others).2.2 = [] := by
  unfold Txn.initRun at *
  cases hp : Txn.initProg db marker mark seeds with
  | none => rw [hp] at h; cases h
  | some tc =>
    obtain ⟨t, created⟩ := tc
    rw [hp] at h
    simp only [] at h ⊢
    cases hc : Txn.commit (db.putAll others) t with
    | none => exact ⟨rfl, rfl⟩
    | some db' => rw [hc] at h; cases h

/-- **Init never overwrites an acknowledged write**: whatever was committed while its transaction
was open is still there afterwards, whether Init succeeded or not -/
theorem init_keeps_concurrent_writes (db : Txn.DB V) (hw : Txn.WF db) (marker : Txn.Key) (mark : V)
    (seeds : List (Txn.Key × V)) (others : List (Txn.Key × Option V)) :
    ∀ k ∈ others.map (·.1), (Txn.initRun db marker mark seeds others).1.get k = (db.putAll others).get k :=
  fun k hk => Txn.initRun_keeps db hw marker mark seeds others k hk

/-- **a successful Init is an Init that ran alone at its commit point** (so everything proved about
the sequential `initOnce` applies to it): same database, same seeds reported to the listeners -/
theorem init_serializable (db : Txn.DB V) (hw : Txn.WF db) (marker : Txn.Key) (mark : V)
    (seeds : List (Txn.Key × V)) (others : List (Txn.Key × Option V)) (hm : marker ∉ others.map (·.1))
    (hok : (Txn.initRun db marker mark seeds others).2.1 = true) :
    Txn.initRun db marker mark seeds others = Txn.initAlone (db.putAll others) marker mark seeds :=
  Txn.initRun_serializable db hw marker mark seeds others hm hok

/-- **what a successful Init leaves behind, whatever ran beside it**: relative to the database at its
commit point (everything the other writers committed meanwhile included), nothing changes if the store
was already marked; otherwise every seed whose id was free holds its seed value, every id that existed
keeps its value, the marker is set and no other key is touched — the sequential `initOnce` of the
theorems above -/
theorem init_concurrent_is_initOnce (db : Txn.DB V) (hw : Txn.WF db) (marker : Txn.Key) (mark : V)
    (seeds : List (Txn.Key × V)) (hnd : (seeds.map (·.1)).Nodup) (others : List (Txn.Key × Option V))
    (hm : marker ∉ others.map (·.1)) (hok : (Txn.initRun db marker mark seeds others).2.1 = true)
    (k : Txn.Key) (hk : k ≠ marker) :
    (Txn.initRun db marker mark seeds others).1.get k =
      (if ((db.putAll others).get marker).isSome then (db.putAll others).get k
       else match seeds.find? (fun s => s.1 == k) with
         | some s => (match (db.putAll others).get k with | some old => some old | none => some s.2)
         | none => (db.putAll others).get k) := by
  rw [Txn.initRun_serializable db hw marker mark seeds others hm hok]
  exact (Txn.initAlone_get (db.putAll others) (Txn.wf_putAll hw others) marker mark seeds hnd k hk).2.1

/-- why Init must look its seed ids up *through its transaction*: the variant that checks existence in
a separate read-only view commits over a Create that was acknowledged meanwhile -/
theorem blind_lookup_loses_a_write :
    let db : Txn.DB Nat := {}
    let r := Txn.initRunBlind db [0] 1 [([7], 100)] [([7], some 55)]
    r.2.1 = true ∧ r.1.get [7] = some 100 ∧ (db.putAll [([7], some 55)]).get [7] = some 55 := by
  decide

/-! ## non-vacuity -/
-- the same history with the real Init: the Create of id [7] is acknowledged, Init conflicts, nothing is seeded
example : let db : Txn.DB Nat := {}
    let r := Txn.initRun db [0] 1 [([7], 100), ([8], 200)] [([7], some 55)]
    r.2.1 = false ∧ r.1.get [7] = some 55 ∧ r.1.get [8] = none ∧ r.1.get [0] = none := by decide
-- no interference: both seeds and the marker are written, the listeners hear of both
example : let db : Txn.DB Nat := {}
    let r := Txn.initRun db [0] 1 [([7], 100), ([8], 200)] [([9], some 5)]
    r.2.1 = true ∧ r.1.get [7] = some 100 ∧ r.1.get [8] = some 200 ∧ r.1.get [0] = some 1 ∧ r.1.get [9] = some 5 ∧
    r.2.2 = [([7], 100), ([8], 200)] := by decide

example : (initOnce [([1], 5)] ({ vals := [], marker := false } : Disk Nat)).vals = [([1], 5)] := by decide
example : (commit (commit (initOnce [([1], 5)] ({} : Disk Nat)) (.put [1] none)) (.init [([1], 5)])).vals = [] := by decide

/-! ## the Go function has the shape of the modelled program

`Generated.initShape` (rewritten from /repo's store/badgerstore/store.go on every run) is the
database-relevant skeleton of `Store.Init` in source order.  `Txn.initProg`, `all_or_nothing` and
`init_once` are about *one* transaction that reads the marker, reads each seed id through the
transaction before writing it, writes the marker, and whose listeners run after the commit.  The
theorem below says the source is that program: one update transaction; every transactional read and
write lies inside it and nothing is looked up beside it (`blind_lookup_loses_a_write` is what
happens otherwise); the marker is the first thing read and is written inside the same transaction,
after the seeds (a marker written by a second transaction leaves a crash window with seeds but no
marker: seeds deleted later would be resurrected); listeners are told after the transaction. -/

def between (xs : List String) : List String :=
  ((xs.dropWhile (· != "update{")).drop 1).takeWhile (· != "}update")

def initShapeOk (xs : List String) : Bool :=
  let inside := between xs
  let before := xs.takeWhile (· != "update{")
  let after := ((xs.dropWhile (· != "}update")).drop 1)
  xs.count "update{" == 1 && xs.count "}update" == 1 &&
  -- nothing transactional, no other lookup and no notification outside the one transaction / before its end
  before.all (fun x => !(x.startsWith "txn." || x.startsWith "beside:" || x.startsWith "notify:")) &&
  after.all (fun x => !(x.startsWith "txn." || x.startsWith "beside:")) &&
  inside.all (fun x => x.startsWith "txn.get:" || x.startsWith "txn.set:") &&
  -- marker read first, marker written last, seeds read before they are written
  inside.head? == some "txn.get:marker" &&
  inside.getLast? == some "txn.set:marker" &&
  inside.count "txn.set:marker" == 1 &&
  (inside.takeWhile (· != "txn.set:seed")).contains "txn.get:seed" &&
  inside.contains "txn.set:seed" &&
  -- the listeners are told, and only after the commit
  after.any (·.startsWith "notify:")

theorem init_source_is_the_modelled_program : initShapeOk Generated.initShape = true := by
  decide +kernel

-- the predicate rejects the shapes it is meant to reject
example : initShapeOk ["update{", "txn.get:marker", "txn.get:seed", "txn.set:seed", "}update", "update{", "txn.set:marker", "}update", "notify:callOnChange"] = false := by decide +kernel
example : initShapeOk ["update{", "txn.get:marker", "beside:Get", "txn.set:seed", "txn.set:marker", "}update", "notify:callOnChange"] = false := by decide +kernel
example : initShapeOk ["update{", "txn.get:marker", "txn.get:seed", "txn.set:seed", "notify:callOnChange", "txn.set:marker", "}update"] = false := by decide +kernel

end GoRes.Props.C12
