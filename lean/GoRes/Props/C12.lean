import GoRes.Model.StoreMap
import GoRes.Lemmas.StoreMap
/-! # C12 — acknowledged writes survive a crash; Init seeds once; indexes rebuild
(partial: BadgerDB's own atomicity and durability of one `Update` transaction, and the OS, are
trusted; the crash harness kills a real process at the instrumented points and compares the
reopened database with `recovered`) -/
namespace GoRes.Props.C12
open GoRes GoRes.Index GoRes.StoreMap

variable {V : Type}

/-- **durability at the level of committed transactions**: after a crash following `n` commits,
the value of every id is the one written by the last of those commits that touched it —
`recovered` is by definition the fold of the committed prefix; what is proved is that a later
transaction cannot disturb an earlier acknowledged one: cutting later only adds commits -/
theorem recovered_step (d : Disk V) (w : List (Txn V)) (n : Nat) (t : Txn V) (h : w[n]? = some t) :
    recovered d w (n + 1) = commit (recovered d w n) t := by
  simp [recovered, List.take_add_one, h, List.foldl_append]

/-- the transaction in flight is either fully applied or absent: the state after a crash at any
point is the state after some prefix of the workload -/
theorem all_or_nothing (d : Disk V) (w : List (Txn V)) (n : Nat) :
    ∃ k, k ≤ w.length ∧ recovered d w n = recovered d w k := by
  by_cases hn : n ≤ w.length
  · exact ⟨n, hn, rfl⟩
  · refine ⟨w.length, Nat.le_refl _, ?_⟩
    simp only [recovered]
    rw [List.take_of_length_le (by omega), List.take_of_length_le (Nat.le_refl _)]

/-- **Init seeds exactly once**: once the marker is committed every later Init is the identity —
seeds deleted later are never resurrected, nothing is duplicated … -/
theorem init_once (seeds seeds' : List (Bytes × V)) (d : Disk V) (w : List (Txn V))
    (hw : ∀ t ∈ w, ∀ s, t ≠ .init s) :
    commit (w.foldl commit (initOnce seeds d)) (.init seeds') = w.foldl commit (initOnce seeds d) := by
  have _ := hw  -- (holds for every workload: a later Init is the identity as well)
  exact initOnce_of_marker seeds' _ (foldl_commit_marker w _ (initOnce_marker seeds d))

/-- … never half-seeding: Init is one transaction, so before it the marker is unset and no seed
was written by it, after it all missing seeds and the marker are there -/
theorem init_complete (seeds : List (Bytes × V)) (d : Disk V) (hm : d.marker = false)
    (hs : (seeds.map (·.1)).Nodup) :
    (initOnce seeds d).marker = true ∧
    ∀ id v, (id, v) ∈ seeds → vget (initOnce seeds d).vals id = (match vget d.vals id with | some old => some old | none => some v) := by
  refine ⟨initOnce_marker seeds d, ?_⟩
  intro id v hmem
  rw [initOnce_vals seeds d hm, (mem_iff_vget seeds hs id v).1 hmem]
  cases vget d.vals id <;> rfl

/-- Init never overwrites or removes an existing value -/
theorem init_preserves (seeds : List (Bytes × V)) (d : Disk V) (id : Bytes) (v : V) (h : vget d.vals id = some v) :
    vget (initOnce seeds d).vals id = some v := by
  cases hm : d.marker with
  | true => rw [initOnce_of_marker seeds d hm]; exact h
  | false => rw [initOnce_vals seeds d hm, h]; rfl

/-- **RebuildIndexes is exact**, whatever garbage the index held before: afterwards the keys of
every index are exactly the image of the stored values -/
theorem rebuild_exact (idxs : List (Idx V)) (vals : List (Bytes × V)) (db : DB)
    (hd : (vals.map (·.1)).Nodup)
    (hnames : (idxs.map (·.name)).Pairwise (fun a b => ¬ (getQuery a []).isPrefixOf (getQuery b []) ∧ ¬ (getQuery b []).isPrefixOf (getQuery a [])))
    (ix : Idx V) (hix : ix ∈ idxs) (k : Bytes) :
    k ∈ keysOf ix.name (rebuild idxs vals db) ↔ ∃ e ∈ entriesOf ix vals, k = getKey ix.name e.1 e.2 := by
  rw [← idxSpec_iff_entries ix vals hd]
  have h := rebuild_fold_inv idxs hnames vals [] _ (by simpa using hd) (by
    intro ix' hix' k'
    constructor
    · intro h; exact absurd h (keysOf_cleared idxs db ix' hix' k')
    · rintro ⟨id, key, h, _⟩; simp at h) ix hix k
  rw [List.nil_append] at h
  exact h

/-! ## non-vacuity -/
example : (initOnce [([1], 5)] ({ vals := [], marker := false } : Disk Nat)).vals = [([1], 5)] := by decide
example : (commit (commit (initOnce [([1], 5)] ({} : Disk Nat)) (.put [1] none)) (.init [([1], 5)])).vals = [] := by decide

end GoRes.Props.C12
