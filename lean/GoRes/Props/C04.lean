import GoRes.Lemmas.GetReq
import GoRes.Model.Req
import GoRes.Lemmas.Req
/-! # C04 — every request gets exactly one response, whatever the handler does

`process cfg r script` is the model of `processRequest`/`executeHandler` for one
request; a handler is an arbitrary script. -/
namespace GoRes.Props.C04
open GoRes GoRes.Req

/-- **exactly one response** for every handler configuration, request, payload and script —
replies, double replies, no reply, panics of any kind before or after replying, events,
timeouts, unmarshalable values — unless the request is an access request to a pattern
registered without access handler -/
theorem one_response (cfg : HCfg) (r : ReqIn) (script : List Action) (h : ¬ Unanswered cfg r) :
    (responses (process cfg r script)).length = 1 := by
  rcases process_cases cfg r script with ⟨hu, _⟩ | ⟨_, p, hp, he⟩ | ⟨_, kind, _, _, _, he⟩
  · exact absurd hu h
  · rw [he, responses_reply p hp.isPre]; rfl
  · rw [he]; exact responses_finish_length _ _ _ _ (replyInv_seen0 _ _)

/-- … and that one stays unanswered (no response, no effect at all) -/
theorem unanswered_silent (cfg : HCfg) (r : ReqIn) (script : List Action) (h : Unanswered cfg r) :
    process cfg r script = [] := by
  rcases process_cases cfg r script with ⟨_, he⟩ | ⟨hu, _⟩ | ⟨hu, _⟩
  · exact he
  · exact absurd h hu
  · exact absurd h hu

/-- at no point of the execution have two responses been published (the second reply attempt
panics inside the library and the recover arm publishes nothing more) -/
theorem never_two_responses (cfg : HCfg) (r : ReqIn) (script : List Action) (k : Nat) :
    (responses ((process cfg r script).take k)).length ≤ 1 := by
  have hle : (responses (process cfg r script)).length ≤ 1 := by
    by_cases h : Unanswered cfg r
    · simp [unanswered_silent cfg r script h, responses]
    · rw [one_response cfg r script h]; exact Nat.le_refl 1
  exact Nat.le_trans (responses_take_length_le _ k) hle

/-- once replied, a script step never publishes another response (whatever it is) -/
theorem act_after_reply (cfg : HCfg) (r : ReqIn) (s : St) (a : Action) (hr : s.replied = true) :
    responses (stepSt (act cfg r s a)).effs = responses s.effs ∧ (stepSt (act cfg r s a)).replied = true := by
  exact (act_next cfg r s a).after_reply hr

/-- a panic of any kind in the handler is absorbed: the effects of the request are the effects
up to the panic plus at most the error response -/
theorem panic_absorbed (cfg : HCfg) (r : ReqIn) (s : St) (p : PanicV) :
    (recoverArm s p).effs = s.effs ∨ ∃ payload, (recoverArm s p).effs = s.effs ++ [.pub replySubj payload] := by
  have _ := cfg; have _ := r
  rcases finish_cases (.panic s p) with ⟨_, h⟩ | ⟨_, q, _, h⟩
  · exact Or.inl h
  · exact Or.inr ⟨q, h⟩

/-! ## non-vacuity -/
def cfg0 : HCfg := ⟨true, true, true, [[109]], [], 1, .absent, .absent, .absent, .absent, .absent, 0, []⟩
def req0 : ReqIn := ⟨.call, [97], [110, 101, 119], true, [], .ok, [], false, none, none, []⟩
example : ¬ Unanswered cfg0 req0 := by simp [Unanswered, req0]

/-! ## `Resource.Value()` inside a handler (`getrequest.go`, `Model/GetReq.lean`)

A handler may call `r.Value()`, which runs the resource's Get handler on an in-memory request.
Whatever that Get handler does — replies once, twice, not at all, panics with any value before or
after replying, calls `Value()` itself — `Value()` returns normally with a result decided by the first
action that replies or panics, so the outer request is answered exactly as if `Value()` were a plain
function call (the theorems above then apply to the outer handler's script). -/

open GoRes.GetReq in
/-- **the first reply (or panic) of the Get handler decides what `Value()` returns**; later replies,
panics and errors change nothing -/
theorem nested_value_first_reply_decides (hasGet : Bool) (missing : Str) (script : List Act) :
    valueOf hasGet missing script = spec hasGet missing script :=
  valueOf_eq_spec hasGet missing script

open GoRes.GetReq in
/-- `Value()` always returns, with an error whenever it has no value from a reply: never both a stored
value and an error -/
theorem nested_value_never_both (hasGet : Bool) (missing : Str) (script : List Act) :
    (valueOf hasGet missing script).1 = none ∨ (valueOf hasGet missing script).2 = none := by
  rw [valueOf_eq_spec]
  unfold spec
  cases hasGet with
  | false => exact Or.inl rfl
  | true =>
    simp only [Bool.not_true, Bool.false_eq_true, if_false]
    cases firstOutcome script <;> simp

open GoRes.GetReq in
/-- without a Get handler `Value()` reports not-found; a handler that returns without replying gives the
internal missing-response error -/
theorem nested_value_defaults (missing : Str) (script : List Act) :
    valueOf false missing script = (none, some errNotFound) ∧
    valueOf true missing [] = (none, some (.res GetReq.codeInternal missing)) := ⟨rfl, rfl⟩

-- non-vacuity: reply, then a second reply (which panics inside the handler), then an error: the first value stands
open GoRes.GetReq in
example : valueOf true [1] [.timeout, .model [2], .collection [3], .error (.other [4])] = (some [2], none) := by decide
open GoRes.GetReq in
example : valueOf true [1] [.value, .model [2]] =
    (none, some (.res GetReq.codeInternal (b!"Internal error: Value() called within get request handler"))) := by decide

end GoRes.Props.C04
