import GoRes.Model.Req
import GoRes.Lemmas.Req
/-! # C04 — every request gets exactly one response, whatever the handler does

`process cfg r script` is the model of `processRequest`/`executeHandler` for one
request; a handler is an arbitrary script. -/
namespace GoRes.Props.C04
open GoRes GoRes.Req

/-- **exactly one response** for every handler configuration, request, payload and script —
replies, double replies, no reply, panics of any kind before or after replying, events,
timeouts, unmarshalable values — unless the request is an access request to a pattern
registered without access handler -/
theorem one_response (cfg : HCfg) (r : ReqIn) (script : List Action) (h : ¬ Unanswered cfg r) :
    (responses (process cfg r script)).length = 1 := by
  rcases process_cases cfg r script with ⟨hu, _⟩ | ⟨_, p, hp, he⟩ | ⟨_, kind, _, _, _, he⟩
  · exact absurd hu h
  · rw [he, responses_reply p hp.isPre]; rfl
  · rw [he]; exact responses_finish_length _ _ _ _ (replyInv_seen0 _ _)

/-- … and that one stays unanswered (no response, no effect at all) -/
theorem unanswered_silent (cfg : HCfg) (r : ReqIn) (script : List Action) (h : Unanswered cfg r) :
    process cfg r script = [] := by
  rcases process_cases cfg r script with ⟨_, he⟩ | ⟨hu, _⟩ | ⟨hu, _⟩
  · exact he
  · exact absurd h hu
  · exact absurd h hu

/-- at no point of the execution have two responses been published (the second reply attempt
panics inside the library and the recover arm publishes nothing more) -/
theorem never_two_responses (cfg : HCfg) (r : ReqIn) (script : List Action) (k : Nat) :
    (responses ((process cfg r script).take k)).length ≤ 1 := by
  have hle : (responses (process cfg r script)).length ≤ 1 := by
    by_cases h : Unanswered cfg r
    · simp [unanswered_silent cfg r script h, responses]
    · rw [one_response cfg r script h]; exact Nat.le_refl 1
  exact Nat.le_trans (responses_take_length_le _ k) hle

/-- once replied, a script step never publishes another response (whatever it is) -/
theorem act_after_reply (cfg : HCfg) (r : ReqIn) (s : St) (a : Action) (hr : s.replied = true) :
    responses (stepSt (act cfg r s a)).effs = responses s.effs ∧ (stepSt (act cfg r s a)).replied = true := by
  exact (act_next cfg r s a).after_reply hr

/-- a panic of any kind in the handler is absorbed: the effects of the request are the effects
up to the panic plus at most the error response -/
theorem panic_absorbed (cfg : HCfg) (r : ReqIn) (s : St) (p : PanicV) :
    (recoverArm s p).effs = s.effs ∨ ∃ payload, (recoverArm s p).effs = s.effs ++ [.pub replySubj payload] := by
  have _ := cfg; have _ := r
  rcases finish_cases (.panic s p) with ⟨_, h⟩ | ⟨_, q, _, h⟩
  · exact Or.inl h
  · exact Or.inr ⟨q, h⟩

/-! ## non-vacuity -/
def cfg0 : HCfg := ⟨true, true, true, [[109]], [], 1, .absent, .absent, .absent, .absent, .absent, 0⟩
def req0 : ReqIn := ⟨.call, [97], [110, 101, 119], true, [], .ok, [], false, none, none, []⟩
example : ¬ Unanswered cfg0 req0 := by simp [Unanswered, req0]

end GoRes.Props.C04
