import GoRes.Model.Index
import GoRes.Lemmas.Index
/-! # C13 — index queries equal a sorted, filtered, windowed scan of the store -/
namespace GoRes.Props.C13
open GoRes GoRes.Index

def NoNul (b : Bytes) : Prop := ∀ c ∈ b, c ≠ 0

/-- **key order**: the on-disk order of `<key>\0<id>` is the lexicographic order of (key, id),
provided keys and ids do not contain the separator byte -/
theorem key_order (k1 k2 id1 id2 : Bytes) (h1 : NoNul k1) (h2 : NoNul k2) (h3 : NoNul id1) (h4 : NoNul id2) :
    ble (k1 ++ 0 :: id1) (k2 ++ 0 :: id2) = pairLe (k1, id1) (k2, id2) := by
  sorry

/-- the database keys are sorted (strictly ascending), as BadgerDB iterates them -/
def Sorted (keys : List Bytes) : Prop := keys.Pairwise (fun a b => blt a b = true)

/-- the keys under `name:` are exactly the entries of the index -/
def Holds (keys : List Bytes) (name : Bytes) (entries : List (Bytes × Bytes)) : Prop :=
  ∀ k, (k ∈ keys ∧ (getQuery name []).isPrefixOf k = true) ↔ ∃ e ∈ entries, k = getKey name e.1 e.2

/-- **fetch = sort – filter – window**, for every prefix (empty, partial, full key, longer than
any key, containing the separator byte), filter, offset, limit (negative, zero, positive) and direction -/
theorem fetch_spec (keys : List Bytes) (name pre : Bytes) (entries : List (Bytes × Bytes))
    (filter : Bytes → Bool) (offset limit : Int) (reverse : Bool)
    (hs : Sorted keys) (hh : Holds keys name entries)
    (hn : ∀ e ∈ entries, NoNul e.1 ∧ NoNul e.2) (hname : NoNul name)
    (hd : (entries.map (·.2)).Nodup) (ho : 0 ≤ offset)
    (h255 : ∀ e ∈ entries, ∀ c ∈ e.1 ++ e.2, c < 255) :
    fetch keys name pre filter offset limit reverse = some (spec entries pre filter offset limit reverse) := by
  sorry

/-- **index consistency**: after any history of creates, updates (changing or keeping keys) and
deletes, the entries of every index are exactly the image of the stored values
(values whose key function returns `none` are not indexed) -/
theorem index_consistent {V : Type} (idxs : List (Idx V)) (hist : List (Bytes × Option V))
    (hnames : (idxs.map (·.name)).Pairwise (fun a b => ¬ (getQuery a []).isPrefixOf (getQuery b []) ∧ ¬ (getQuery b []).isPrefixOf (getQuery a [])))
    (hnn : ∀ ix ∈ idxs, NoNul ix.name) (hid : ∀ h ∈ hist, NoNul h.1)
    (hk : ∀ ix ∈ idxs, ∀ v, ∀ k, ix.key v = some k → NoNul k)
    (ix : Idx V) (hix : ix ∈ idxs) (k : Bytes) :
    k ∈ keysOf ix.name (applyHist idxs hist ([], [])).2 ↔
      ∃ e ∈ entriesOf ix (applyHist idxs hist ([], [])).1, k = getKey ix.name e.1 e.2 := by
  sorry

/-- … and the database stays sorted, so `fetch_spec` applies after every history -/
theorem index_sorted {V : Type} (idxs : List (Idx V)) (hist : List (Bytes × Option V)) :
    Sorted ((applyHist idxs hist ([], [])).2.map (·.1)) := by
  sorry

/-- zero limit means empty, whatever the index holds -/
theorem limit_zero (keys : List Bytes) (name pre : Bytes) (filter : Bytes → Bool) (offset : Int) (reverse : Bool) :
    fetch keys name pre filter offset 0 reverse = some [] := by
  sorry

/-! ## non-vacuity -/
-- index "k" (107) with entries ("a","1"), ("ab","2"): keys "k:a\01", "k:ab\02"
example : fetch [[107,58,97,0,49], [107,58,97,98,0,50]] [107] [97] (fun _ => true) 0 (-1) true = some [[50], [49]] := by decide
example : spec [([97],[49]), ([97,98],[50])] [97] (fun _ => true) 0 (-1) true = [[50], [49]] := by decide

end GoRes.Props.C13
