import GoRes.Model.Index
import GoRes.Lemmas.Index
/-! # C13 — index queries equal a sorted, filtered, windowed scan of the store -/
namespace GoRes.Props.C13
open GoRes GoRes.Index

def NoNul (b : Bytes) : Prop := ∀ c ∈ b, c ≠ 0

/-- **key order**: the on-disk order of `<key>\0<id>` is the lexicographic order of (key, id),
provided keys and ids do not contain the separator byte -/
theorem key_order (k1 k2 id1 id2 : Bytes) (h1 : NoNul k1) (h2 : NoNul k2) (h3 : NoNul id1) (h4 : NoNul id2) :
    ble (k1 ++ 0 :: id1) (k2 ++ 0 :: id2) = pairLe (k1, id1) (k2, id2) := by
  have _ := h3; have _ := h4  -- (only the keys matter)
  exact sep_ble h1 h2 id1 id2

/-- the database keys are sorted (strictly ascending), as BadgerDB iterates them -/
def Sorted (keys : List Bytes) : Prop := keys.Pairwise (fun a b => blt a b = true)

/-- the keys under `name:` are exactly the entries of the index -/
def Holds (keys : List Bytes) (name : Bytes) (entries : List (Bytes × Bytes)) : Prop :=
  ∀ k, (k ∈ keys ∧ (getQuery name []).isPrefixOf k = true) ↔ ∃ e ∈ entries, k = getKey name e.1 e.2

/-- **fetch = sort – filter – window**, for every prefix (empty, partial, full key, longer than
any key, containing the separator byte), filter, offset, limit (negative, zero, positive) and direction.
(`hlen` was added to the hand-written statement: with a negative limit the loop runs with limit
`MaxInt64`, so it agrees with the specification only if the unlimited result has at most `MaxInt64`
ids; see `fetch_unlimited_length` and `fetch_spec_needs_bound` below. `hname` and `ho` are not used.)
Keys and ids are only required to consist of bytes (≤ 255, `hbytes`; the model's bytes are natural
numbers): a 0xFF byte directly after the prefix is found in both directions. -/
theorem fetch_spec (keys : List Bytes) (name pre : Bytes) (entries : List (Bytes × Bytes))
    (filter : Bytes → Bool) (offset limit : Int) (reverse : Bool)
    (hs : Sorted keys) (hh : Holds keys name entries)
    (hn : ∀ e ∈ entries, NoNul e.1 ∧ NoNul e.2) (hname : NoNul name)
    (hd : (entries.map (·.2)).Nodup) (ho : 0 ≤ offset)
    (hbytes : ∀ e ∈ entries, ∀ c ∈ e.1 ++ e.2, c ≤ 255)
    (hlen : limit < 0 → (spec entries pre filter offset limit reverse).length ≤ 9223372036854775807) :
    fetch keys name pre filter offset limit reverse = some (spec entries pre filter offset limit reverse) := by
  have _ := hname; have _ := ho
  by_cases h0 : limit = 0
  · simp [fetch, spec, h0]
  · have hnd : entries.Nodup := by
      rw [List.nodup_iff_pairwise_ne] at hd ⊢
      rw [List.pairwise_map] at hd
      exact hd.imp (fun h e => h (by rw [e]))
    have hhits : ∀ l : List (Bytes × Bytes),
        l.filter (fun e => pre.isPrefixOf e.1 && filter e.1) = l.filter (hit pre filter) := fun _ => rfl
    simp only [spec, h0, ↓reduceIte, hhits] at hlen ⊢
    simp only [fetch, h0, ↓reduceIte]
    by_cases hneg : limit < 0
    · simp only [hneg, ↓reduceIte] at hlen ⊢
      rw [fetch_eq keys name pre entries filter offset _ reverse hs hh hn hnd (fun _ => hbytes) (by omega)]
      rw [List.take_of_length_le]
      simpa using hlen
    · simp only [hneg, ↓reduceIte]
      rw [fetch_eq keys name pre entries filter offset _ reverse hs hh hn hnd (fun _ => hbytes) (by omega)]

/-- `fetch_spec` for an index of at most `MaxInt64` entries -/
theorem fetch_spec_of_length (keys : List Bytes) (name pre : Bytes) (entries : List (Bytes × Bytes))
    (filter : Bytes → Bool) (offset limit : Int) (reverse : Bool)
    (hs : Sorted keys) (hh : Holds keys name entries)
    (hn : ∀ e ∈ entries, NoNul e.1 ∧ NoNul e.2) (hname : NoNul name)
    (hd : (entries.map (·.2)).Nodup) (ho : 0 ≤ offset)
    (hbytes : ∀ e ∈ entries, ∀ c ∈ e.1 ++ e.2, c ≤ 255)
    (hlen : entries.length ≤ 9223372036854775807) :
    fetch keys name pre filter offset limit reverse = some (spec entries pre filter offset limit reverse) := by
  apply fetch_spec keys name pre entries filter offset limit reverse hs hh hn hname hd ho hbytes
  intro hneg
  have h0 : ¬ limit = 0 := by omega
  simp only [spec, h0, hneg, ↓reduceIte, List.length_map, List.length_drop]
  have h1 := List.length_filter_le (fun e : Bytes × Bytes => pre.isPrefixOf e.1 && filter e.1) (sortPairs entries)
  have h2 := (sortPairs_perm entries).length_eq
  cases reverse <;> simp only [Bool.false_eq_true, ↓reduceIte, List.length_reverse] <;> omega

/-- the hypothesis `hlen` of `fetch_spec` (added to the original statement) is necessary: an
unlimited query (`limit < 0`, which `FetchCollection` turns into `MaxInt64`) never returns more
than `MaxInt64` ids … -/
theorem fetch_unlimited_length (keys : List Bytes) (name pre : Bytes) (filter : Bytes → Bool)
    (offset limit : Int) (reverse : Bool) (r : List Bytes) (hneg : limit < 0)
    (h : fetch keys name pre filter offset limit reverse = some r) : r.length ≤ 9223372036854775807 := by
  have h0 : ¬ limit = 0 := by omega
  simp only [fetch, h0, ↓reduceIte, hneg] at h
  have := collect_length_le _ _ _ _ _ _ (by omega) _ _ h
  simp only [List.length_nil] at this
  omega

/-- … and without it the statement is false: an index with `2^63` entries (ids `1`, `11`, `111`, …
under the empty key) satisfies every other hypothesis, the specification returns all of them, the
implementation stops after `MaxInt64` -/
theorem fetch_spec_needs_bound :
    ¬ (∀ (keys : List Bytes) (name pre : Bytes) (entries : List (Bytes × Bytes))
        (filter : Bytes → Bool) (offset limit : Int) (reverse : Bool),
        Sorted keys → Holds keys name entries →
        (∀ e ∈ entries, NoNul e.1 ∧ NoNul e.2) → NoNul name →
        (entries.map (·.2)).Nodup → 0 ≤ offset →
        (∀ e ∈ entries, ∀ c ∈ e.1 ++ e.2, c ≤ 255) →
        fetch keys name pre filter offset limit reverse = some (spec entries pre filter offset limit reverse)) := by
  intro hall
  let N : Nat := 9223372036854775808
  let ids : List Bytes := (List.range N).map (fun i => List.replicate (i + 1) 1)
  let entries : List (Bytes × Bytes) := ids.map (fun id => ([], id))
  let keys : List Bytes := entries.map (fun e => getKey [] e.1 e.2)
  have hrep : ∀ i j : Nat, i < j → blt (List.replicate (i + 1) 1) (List.replicate (j + 1) 1) = true := by
    intro i j hij
    rw [blt_iff]
    constructor
    · apply ble_of_isPrefixOf
      rw [List.isPrefixOf_iff_prefix]
      exact ⟨List.replicate (j - i) 1, by rw [List.replicate_append_replicate]; congr 1; omega⟩
    · intro h
      have := congrArg List.length h
      simp at this; omega
  have hsorted : Sorted keys := by
    simp only [Sorted, keys, entries, ids, List.pairwise_map]
    refine List.Pairwise.imp ?_ List.pairwise_lt_range
    intro i j hij
    have : ∀ id : Bytes, getKey [] [] id = [58, 0] ++ id := fun id => by simp [getKey]
    rw [this, this, blt_append_left]
    exact hrep i j hij
  have hholds : Holds keys [] entries := by
    intro k
    simp only [keys, List.mem_map]
    constructor
    · rintro ⟨⟨e, he, rfl⟩, _⟩; exact ⟨e, he, rfl⟩
    · rintro ⟨e, he, rfl⟩; exact ⟨⟨e, he, rfl⟩, getQuery_prefix_getKey _ _ _⟩
  have hmem : ∀ e ∈ entries, e.1 = [] ∧ ∃ i, e.2 = List.replicate (i + 1) 1 := by
    intro e he
    simp only [entries, ids, List.mem_map, List.mem_range] at he
    obtain ⟨id, ⟨i, _, rfl⟩, rfl⟩ := he
    exact ⟨rfl, i, rfl⟩
  have hnul : ∀ e ∈ entries, NoNul e.1 ∧ NoNul e.2 := by
    intro e he
    obtain ⟨h1, i, h2⟩ := hmem e he
    rw [h1, h2]
    constructor
    · intro c hc; cases hc
    · intro c hc; rw [List.eq_of_mem_replicate hc]; decide
  have hnodup : (entries.map (·.2)).Nodup := by
    simp only [entries, ids, List.map_map, List.nodup_iff_pairwise_ne, List.pairwise_map]
    refine List.Pairwise.imp ?_ List.pairwise_lt_range
    intro i j hij h
    have := congrArg List.length h
    simp at this; omega
  have hbytes : ∀ e ∈ entries, ∀ c ∈ e.1 ++ e.2, c ≤ 255 := by
    intro e he c hc
    obtain ⟨h1, i, h2⟩ := hmem e he
    rw [h1, h2, List.nil_append] at hc
    rw [List.eq_of_mem_replicate hc]; decide
  have h := hall keys [] [] entries (fun _ => true) 0 (-1) false hsorted hholds hnul
    (by intro c hc; cases hc) hnodup (Int.le_refl 0) hbytes
  have hle := fetch_unlimited_length _ _ _ _ _ _ _ _ (by decide) h
  have hlen : (spec entries [] (fun _ => true) 0 (-1) false).length = N := by
    have e1 : ¬ ((-1 : Int) = 0) := by decide
    have e2 : (-1 : Int) < 0 := by decide
    have e3 : (List.filter (fun e : Bytes × Bytes => ([] : Bytes).isPrefixOf e.1 && true) (sortPairs entries)) =
        sortPairs entries := List.filter_eq_self.2 (fun _ _ => by simp)
    simp only [spec, e1, e2, ↓reduceIte, Bool.false_eq_true, e3, Int.toNat_zero, List.drop_zero, List.length_map]
    rw [(sortPairs_perm entries).length_eq]
    simp [entries, ids]
  rw [hlen] at hle
  exact absurd hle (by decide)

/-- **index consistency**: after any history of creates, updates (changing or keeping keys) and
deletes, the entries of every index are exactly the image of the stored values
(values whose key function returns `none` are not indexed) -/
theorem index_consistent {V : Type} (idxs : List (Idx V)) (hist : List (Bytes × Option V))
    (hnames : (idxs.map (·.name)).Pairwise (fun a b => ¬ (getQuery a []).isPrefixOf (getQuery b []) ∧ ¬ (getQuery b []).isPrefixOf (getQuery a [])))
    (hnn : ∀ ix ∈ idxs, NoNul ix.name) (hid : ∀ h ∈ hist, NoNul h.1)
    (hk : ∀ ix ∈ idxs, ∀ v, ∀ k, ix.key v = some k → NoNul k)
    (ix : Idx V) (hix : ix ∈ idxs) (k : Bytes) :
    k ∈ keysOf ix.name (applyHist idxs hist ([], [])).2 ↔
      ∃ e ∈ entriesOf ix (applyHist idxs hist ([], [])).1, k = getKey ix.name e.1 e.2 := by
  have _ := hnn; have _ := hid  -- (only the separator-freeness of the keys matters)
  have h := applyHist_inv idxs hnames hk hist [] [] (by simp) (by
    intro ix _ k
    simp [keysOf, IdxSpec])
  rw [← idxSpec_iff_entries ix _ h.1]
  exact h.2 ix hix k

/-- … and the database stays sorted, so `fetch_spec` applies after every history -/
theorem index_sorted {V : Type} (idxs : List (Idx V)) (hist : List (Bytes × Option V)) :
    Sorted ((applyHist idxs hist ([], [])).2.map (·.1)) := by
  exact applyHist_sorted idxs hist ([], []) (by simp [KeysSorted])

/-- zero limit means empty, whatever the index holds -/
theorem limit_zero (keys : List Bytes) (name pre : Bytes) (filter : Bytes → Bool) (offset : Int) (reverse : Bool) :
    fetch keys name pre filter offset 0 reverse = some [] := by
  simp [fetch]

/-! ## non-vacuity -/
-- index "k" (107) with entries ("a","1"), ("ab","2"): keys "k:a\01", "k:ab\02"
example : fetch [[107,58,97,0,49], [107,58,97,98,0,50]] [107] [97] (fun _ => true) 0 (-1) true = some [[50], [49]] := by decide
example : spec [([97],[49]), ([97,98],[50])] [97] (fun _ => true) 0 (-1) true = [[50], [49]] := by decide
-- a key with the byte 0xFF right after the prefix is found by the reverse scan: keys "k:\x01\01",
-- "k:\x01\xff\02", "k:\x02\03", prefix "k:\x01"
example : scan [[107,58,1,0,49], [107,58,1,255,0,50], [107,58,2,0,51]] [107,58,1] true =
    [[107,58,1,255,0,50], [107,58,1,0,49]] := by decide
example : fetch [[107,58,1,0,49], [107,58,1,255,0,50], [107,58,2,0,51]] [107] [1] (fun _ => true) 0 (-1) true =
    some [[50], [49]] := by decide
example : spec [([1],[49]), ([1,255],[50]), ([2],[51])] [1] (fun _ => true) 0 (-1) true = [[50], [49]] := by decide
-- the end of a prefix: trailing 0xFF bytes are stripped, the last byte is incremented
example : prefixEnd [107,58,255] = some [107,59] := by decide
example : prefixEnd [255,255] = none := by decide

end GoRes.Props.C13
