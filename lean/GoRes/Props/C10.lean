import GoRes.Model.Diff
import GoRes.Lemmas.Diff
/-! # C10 — clients of store-backed resources stay coherent with a fresh get

Theorems about the model of `store/storehandler.go` (Model/Diff.lean): the events
published for a mutation, applied in order by a client that held the value served
before, give exactly the value served after — for every pair of values, and for the
collection diff *for every content of the LCS table* (correctness does not depend on
the table; only minimality does). -/
namespace GoRes.Props.C10
open GoRes GoRes.Diff

variable {α : Type} [DecidableEq α] [Inhabited α]

set_option linter.unusedSectionVars false
set_option linter.unusedVariables false

/-- **collection edit script**: remove/add events turn the old collection into the new one,
with every index in range at the moment it is applied (`applyAll` fails on an out-of-range
index), whatever the table says -/
theorem collection_edit_script (tbl : List α → List α → Nat → Nat → Nat) (a b : List α) :
    applyAll a (collectionDiffWith tbl a b) = some b := by
  unfold collectionDiffWith
  simp only
  split
  · rename_i h
    have h1 := take_commonPrefix a b
    rw [h.1] at h1
    have h2 := h.2
    rw [h.1] at h2
    rw [List.take_length, h2, List.take_length] at h1
    simp [applyAll, h1]
  · obtain ⟨p, q, hp, ha, hb⟩ := trim_decomp a b
    obtain ⟨ops, hs, ht, hev⟩ := walk_events
      ((a.drop (commonPrefix a b)).take (a.length - commonPrefix a b -
        commonPrefix (a.drop (commonPrefix a b)).reverse (b.drop (commonPrefix a b)).reverse))
      ((b.drop (commonPrefix a b)).take (b.length - commonPrefix a b -
        commonPrefix (a.drop (commonPrefix a b)).reverse (b.drop (commonPrefix a b)).reverse))
      (tbl _ _) (commonPrefix a b)
    simp only [addEvs] at hev
    rw [hev]
    conv => lhs; arg 1; rw [ha]
    conv => rhs; rw [hb]
    rw [← hs, ← ht, ← hp]
    exact applyAll_script ops p q

/-- the shipped diff (with the real LCS table) is an instance -/
theorem collectionDiff_correct (a b : List α) : applyAll a (collectionDiff a b) = some b :=
  collection_edit_script lcsTable a b

/-- a mutation that does not alter the served collection publishes nothing -/
theorem collection_silent (tbl : List α → List α → Nat → Nat → Nat) (a : List α) :
    collectionDiffWith tbl a a = [] := by
  simp [collectionDiffWith, commonPrefix_self]

/-- keys of a model are unique (a JSON object decoded into a Go map) -/
def NodupKeys (m : Model α) : Prop := (m.map (·.1)).Nodup

/-- **model edit script**: the change event turns the old model into the new one (as maps) -/
theorem model_edit_script (before after : Model α) (hb : NodupKeys before) (ha : NodupKeys after) (k : Str) :
    mget (applyChange before (modelDiff before after)) k = mget after k := by
  apply mget_applyChange
  · rintro ⟨k', v⟩ he
    rcases (mem_modelDiff _ _ _ _).1 he with ⟨rfl, _, hn⟩ | ⟨x, rfl, hm, _⟩
    · exact hn.symm
    · exact (mget_of_mem _ ha _ _ hm).symm
  · by_cases h : ∃ e ∈ modelDiff before after, e.1 = k
    · exact Or.inr h
    · left
      cases hA : mget after k with
      | none =>
        cases hB : mget before k with
        | none => rfl
        | some x =>
          exfalso; apply h
          exact ⟨(k, none), (mem_modelDiff _ _ _ _).2 (Or.inl ⟨rfl, ⟨x, mem_of_mget _ _ _ hB⟩, hA⟩), rfl⟩
      | some x =>
        by_cases hB : mget before k = some x
        · exact hB
        · exfalso; apply h
          exact ⟨(k, some x), (mem_modelDiff _ _ _ _).2 (Or.inr ⟨x, rfl, mem_of_mget _ _ _ hA, hB⟩), rfl⟩

/-- removed keys are sent as delete actions, and only keys whose value differs are sent -/
theorem model_change_minimal (before after : Model α) (hb : NodupKeys before) (ha : NodupKeys after)
    (k : Str) (v : Option α) (h : (k, v) ∈ modelDiff before after) :
    (v = none → mget before k ≠ none ∧ mget after k = none) ∧
    (∀ x, v = some x → mget after k = some x ∧ mget before k ≠ some x) := by
  rcases (mem_modelDiff _ _ _ _).1 h with ⟨rfl, ⟨x, hm⟩, hn⟩ | ⟨x, rfl, hm, hne⟩
  · refine ⟨fun _ => ⟨?_, hn⟩, fun x hx => by simp at hx⟩
    rw [mget_of_mem _ hb _ _ hm]; simp
  · refine ⟨fun hx => by simp at hx, fun y hy => ?_⟩
    injection hy with hy; subst hy
    exact ⟨mget_of_mem _ ha _ _ hm, hne⟩

theorem model_silent (m : Model α) (h : NodupKeys m) : modelDiff m m = [] := by
  apply List.eq_nil_iff_forall_not_mem.2
  rintro ⟨k, v⟩ he
  rcases (mem_modelDiff _ _ _ _).1 he with ⟨rfl, ⟨x, hm⟩, hn⟩ | ⟨x, rfl, hm, hne⟩
  · rw [mget_of_mem _ h _ _ hm] at hn; simp at hn
  · exact hne (mget_of_mem _ h _ _ hm)

/-- what a get serves for a stored value / default -/
def served (dflt : Option (Val α)) (stored : Option (Val α)) : Option (Val α) :=
  match stored with | some v => some v | none => dflt

/-- **handler cases**: with or without default, the events published for `before → after` take a
client holding `served before` to `served after`; creation/deletion of a resource that get
reports as missing is announced as create/delete; equal representations publish nothing -/
theorem handler_coherent_collection (dflt : Option (List α)) (before after : Option (List α)) :
    match changeHandler (α := α) .collection (dflt.map .coll) (before.map .coll) (after.map .coll),
          (match before with | some v => some v | none => dflt),
          (match after with | some v => some v | none => dflt) with
    | .coll evs, some sb, some sa => applyAll sb evs = some sa
    | .nothing, some sb, some sa => sb = sa
    | .nothing, none, none => True
    | .create, none, some _ => True
    | .delete, some _, none => True
    | _, _, _ => False := by
  have key : ∀ sb sa : List α,
      match (if (collectionDiff sb sa).isEmpty then Out.nothing else Out.coll (collectionDiff sb sa)),
        some sb, some sa with
      | .coll evs, some sb, some sa => applyAll sb evs = some sa
      | .nothing, some sb, some sa => sb = sa
      | .nothing, none, none => True
      | .create, none, some _ => True
      | .delete, some _, none => True
      | _, _, _ => False := by
    intro sb sa
    have h := collectionDiff_correct sb sa
    by_cases he : (collectionDiff sb sa).isEmpty = true
    · rw [if_pos he]
      simp only [List.isEmpty_iff] at he
      rw [he] at h
      show sb = sa
      simpa [applyAll] using h
    · rw [if_neg he]; exact h
  cases before <;> cases after <;> cases dflt <;> first | exact key _ _ | exact True.intro

theorem handler_coherent_model (dflt : Option (Model α)) (before after : Option (Model α))
    (hd : ∀ m, dflt = some m → NodupKeys m) (hb : ∀ m, before = some m → NodupKeys m)
    (ha : ∀ m, after = some m → NodupKeys m) :
    match changeHandler (α := α) .model (dflt.map .model) (before.map .model) (after.map .model),
          (match before with | some v => some v | none => dflt),
          (match after with | some v => some v | none => dflt) with
    | .change ch, some sb, some sa => ∀ k, mget (applyChange sb ch) k = mget sa k
    | .nothing, some sb, some sa => ∀ k, mget sb k = mget sa k
    | .nothing, none, none => True
    | .create, none, some _ => True
    | .delete, some _, none => True
    | _, _, _ => False := by
  have key : ∀ sb sa : Model α, NodupKeys sb → NodupKeys sa →
      match (if (modelDiff sb sa).isEmpty then Out.nothing else Out.change (modelDiff sb sa)),
        some sb, some sa with
      | .change ch, some sb, some sa => ∀ k, mget (applyChange sb ch) k = mget sa k
      | .nothing, some sb, some sa => ∀ k, mget sb k = mget sa k
      | .nothing, none, none => True
      | .create, none, some _ => True
      | .delete, some _, none => True
      | _, _, _ => False := by
    intro sb sa hsb hsa
    have h := model_edit_script sb sa hsb hsa
    by_cases he : (modelDiff sb sa).isEmpty = true
    · rw [if_pos he]
      simp only [List.isEmpty_iff] at he
      rw [he] at h
      exact h
    · rw [if_neg he]; exact h
  cases before <;> cases after <;> cases dflt <;>
    first
    | exact True.intro
    | exact key _ _ (hb _ rfl) (ha _ rfl)
    | exact key _ _ (hb _ rfl) (hd _ rfl)
    | exact key _ _ (hd _ rfl) (ha _ rfl)
    | exact key _ _ (hd _ rfl) (hd _ rfl)

/-! ## non-vacuity -/
example : applyAll [1, 2, 3, 4] ([.remove 2, .remove 0, .add 9 1, .add 1 3] : List (Ev Nat)) = some [2, 9, 4, 1] := by decide
/-- the shipped diff on a concrete pair (prefix `1` and suffix `4` trimmed, one removal, two adds) -/
example : collectionDiff [1, 2, 3, 4] [1, 9, 3, 7, 4] = [.remove 1, .add 9 1, .add 7 3] := by decide

end GoRes.Props.C10
