import GoRes.Model.Diff
import GoRes.Lemmas.Diff
/-! # C10 — clients of store-backed resources stay coherent with a fresh get

Theorems about the model of `store/storehandler.go` (Model/Diff.lean): the events
published for a mutation, applied in order by a client that held the value served
before, give exactly the value served after — for every pair of values, and for the
collection diff *for every content of the LCS table* (correctness does not depend on
the table; only minimality does). -/
namespace GoRes.Props.C10
open GoRes GoRes.Diff

variable {α : Type} [DecidableEq α] [Inhabited α]

/-- **collection edit script**: remove/add events turn the old collection into the new one,
with every index in range at the moment it is applied (`applyAll` fails on an out-of-range
index), whatever the table says -/
theorem collection_edit_script (tbl : List α → List α → Nat → Nat → Nat) (a b : List α) :
    applyAll a (collectionDiffWith tbl a b) = some b := by
  sorry

/-- the shipped diff (with the real LCS table) is an instance -/
theorem collectionDiff_correct (a b : List α) : applyAll a (collectionDiff a b) = some b :=
  collection_edit_script lcsTable a b

/-- a mutation that does not alter the served collection publishes nothing -/
theorem collection_silent (tbl : List α → List α → Nat → Nat → Nat) (a : List α) :
    collectionDiffWith tbl a a = [] := by
  sorry

/-- keys of a model are unique (a JSON object decoded into a Go map) -/
def NodupKeys (m : Model α) : Prop := (m.map (·.1)).Nodup

/-- **model edit script**: the change event turns the old model into the new one (as maps) -/
theorem model_edit_script (before after : Model α) (hb : NodupKeys before) (ha : NodupKeys after) (k : Str) :
    mget (applyChange before (modelDiff before after)) k = mget after k := by
  sorry

/-- removed keys are sent as delete actions, and only keys whose value differs are sent -/
theorem model_change_minimal (before after : Model α) (hb : NodupKeys before) (ha : NodupKeys after)
    (k : Str) (v : Option α) (h : (k, v) ∈ modelDiff before after) :
    (v = none → mget before k ≠ none ∧ mget after k = none) ∧
    (∀ x, v = some x → mget after k = some x ∧ mget before k ≠ some x) := by
  sorry

theorem model_silent (m : Model α) (h : NodupKeys m) : modelDiff m m = [] := by
  sorry

/-- what a get serves for a stored value / default -/
def served (dflt : Option (Val α)) (stored : Option (Val α)) : Option (Val α) :=
  match stored with | some v => some v | none => dflt

/-- **handler cases**: with or without default, the events published for `before → after` take a
client holding `served before` to `served after`; creation/deletion of a resource that get
reports as missing is announced as create/delete; equal representations publish nothing -/
theorem handler_coherent_collection (dflt : Option (List α)) (before after : Option (List α)) :
    match changeHandler (α := α) .collection (dflt.map .coll) (before.map .coll) (after.map .coll),
          (match before with | some v => some v | none => dflt),
          (match after with | some v => some v | none => dflt) with
    | .coll evs, some sb, some sa => applyAll sb evs = some sa
    | .nothing, some sb, some sa => sb = sa
    | .nothing, none, none => True
    | .create, none, some _ => True
    | .delete, some _, none => True
    | _, _, _ => False := by
  sorry

theorem handler_coherent_model (dflt : Option (Model α)) (before after : Option (Model α))
    (hd : ∀ m, dflt = some m → NodupKeys m) (hb : ∀ m, before = some m → NodupKeys m)
    (ha : ∀ m, after = some m → NodupKeys m) :
    match changeHandler (α := α) .model (dflt.map .model) (before.map .model) (after.map .model),
          (match before with | some v => some v | none => dflt),
          (match after with | some v => some v | none => dflt) with
    | .change ch, some sb, some sa => ∀ k, mget (applyChange sb ch) k = mget sa k
    | .nothing, some sb, some sa => ∀ k, mget sb k = mget sa k
    | .nothing, none, none => True
    | .create, none, some _ => True
    | .delete, some _, none => True
    | _, _, _ => False := by
  sorry

/-! ## non-vacuity -/
example : applyAll [1, 2, 3, 4] ([.remove 2, .remove 0, .add 9 1, .add 1 3] : List (Ev Nat)) = some [2, 9, 4, 1] := by decide

end GoRes.Props.C10
