import GoRes.Model.Req
import GoRes.Lemmas.Req
import GoRes.Generated.Facts
import GoRes.Generated.Access
/-! # C08 — events apply, publish and notify in order; failed applies publish nothing -/
namespace GoRes.Props.C08
open GoRes GoRes.Req

/-- the effects an action adds to the log -/
def delta (cfg : HCfg) (r : ReqIn) (s : St) (a : Action) : List Eff :=
  (stepSt (act cfg r s a)).effs.drop s.effs.length

/-- the log only grows: what happened stays, in order (program order of one callback) -/
theorem act_extends (cfg : HCfg) (r : ReqIn) (s : St) (a : Action) :
    (stepSt (act cfg r s a)).effs = s.effs ++ delta cfg r s a := by
  obtain ⟨d, hd⟩ := (act_next cfg r s a).extends
  simp [delta, hd]

/-- **program order**: the effects of a script are the concatenation of its steps' effects, in
order, up to the first panic -/
theorem script_extends (cfg : HCfg) (r : ReqIn) (s : St) (script : List Action) :
    ∃ d, (stepSt (runScript cfg r s script)).effs = s.effs ++ d := by
  refine runScript_next cfg r (fun s' => ∃ d, s'.effs = s.effs ++ d) ?_ script s ⟨[], by simp⟩
  rintro s1 s2 hn ⟨d, hd⟩
  obtain ⟨d', hd'⟩ := hn.extends
  exact ⟨d ++ d', by rw [hd', hd, List.append_assoc]⟩

theorem script_cons (cfg : HCfg) (r : ReqIn) (s s' : St) (a : Action) (rest : List Action)
    (h : act cfg r s a = .cont s') :
    runScript cfg r s (a :: rest) = runScript cfg r s' rest := by
  simp [runScript, h]

/-- the shape of one event: `[apply?] ++ [publish] ++ listeners` -/
def eventShape (ap : Apply) (kind : String) (subj payload : Str) (ls : List Eff) : List Eff :=
  (if ap = .absent then [] else [.apply kind]) ++ [.pub subj payload] ++ ls

/-- **change**: apply, then publish, then the listeners in registration order … -/
theorem change_ok (cfg : HCfg) (r : ReqIn) (s : St) (props : List (Str × JV))
    (h1 : cfg.typ ≠ 2) (h2 : props ≠ []) (h3 : cfg.applyChange = .ok ∨ cfg.applyChange = .absent)
    (h4 : ∀ kv ∈ props, kv.2.ok = true) :
    ∃ payload, delta cfg r s (.change props) =
      eventShape cfg.applyChange "change" (evSubj r (b!"change")) payload (listenersOf cfg (b!"change")) := by
  have h5 : props.all (·.2.ok) = true := by simpa using h4
  rcases h3 with h | h <;>
    simp [delta, act, h, h1, h2, h5, stepSt, emit, eventShape, svcEvent, addAll]

/-- … a failing apply handler, or one that reports that nothing changes, publishes nothing and
runs no listener … -/
theorem change_apply_failed (cfg : HCfg) (r : ReqIn) (s : St) (props : List (Str × JV))
    (h1 : cfg.typ ≠ 2) (h2 : props ≠ []) (h3 : cfg.applyChange = .err ∨ cfg.applyChange = .okEmpty) :
    delta cfg r s (.change props) = [.apply "change"] := by
  rcases h3 with h | h <;> simp [delta, act, h, h1, h2, stepSt, emit]

/-- … and an invalid call (wrong resource type, empty change) has no effect at all -/
theorem change_invalid (cfg : HCfg) (r : ReqIn) (s : St) (props : List (Str × JV))
    (h : cfg.typ = 2 ∨ props = []) : delta cfg r s (.change props) = [] := by
  rcases h with h | h
  · simp [delta, act, h]
  · simp only [delta, act, h]; split <;> simp

theorem add_ok (cfg : HCfg) (r : ReqIn) (s : St) (v : JV) (idx : Int)
    (h1 : cfg.typ ≠ 1) (h2 : 0 ≤ idx) (h3 : cfg.applyAdd ≠ .err) (h4 : v.ok = true) :
    ∃ payload, delta cfg r s (.add v idx) =
      eventShape cfg.applyAdd "add" (evSubj r (b!"add")) payload (listenersOf cfg (b!"add")) := by
  have h2' : ¬ idx < 0 := by omega
  by_cases h : cfg.applyAdd = .absent <;>
    simp [delta, act, h, h1, h2', h3, h4, stepSt, emit, eventShape, svcEvent, addAll]

theorem add_failed_or_invalid (cfg : HCfg) (r : ReqIn) (s : St) (v : JV) (idx : Int) :
    (cfg.typ = 1 ∨ idx < 0 → delta cfg r s (.add v idx) = []) ∧
    (cfg.typ ≠ 1 → 0 ≤ idx → cfg.applyAdd = .err → delta cfg r s (.add v idx) = [.apply "add"]) := by
  refine ⟨?_, ?_⟩
  · rintro (h | h)
    · simp [delta, act, h]
    · simp only [delta, act, h]; split <;> simp
  · intro h1 h2 h3
    have h2' : ¬ idx < 0 := by omega
    simp [delta, act, h1, h2', h3, emit]

theorem remove_ok (cfg : HCfg) (r : ReqIn) (s : St) (idx : Int)
    (h1 : cfg.typ ≠ 1) (h2 : 0 ≤ idx) (h3 : cfg.applyRemove ≠ .err) :
    ∃ payload, delta cfg r s (.remove idx) =
      eventShape cfg.applyRemove "remove" (evSubj r (b!"remove")) payload (listenersOf cfg (b!"remove")) := by
  have h2' : ¬ idx < 0 := by omega
  by_cases h : cfg.applyRemove = .absent <;>
    simp [delta, act, h, h1, h2', h3, stepSt, emit, eventShape, svcEvent, addAll]

theorem remove_failed_or_invalid (cfg : HCfg) (r : ReqIn) (s : St) (idx : Int) :
    (cfg.typ = 1 ∨ idx < 0 → delta cfg r s (.remove idx) = []) ∧
    (cfg.typ ≠ 1 → 0 ≤ idx → cfg.applyRemove = .err → delta cfg r s (.remove idx) = [.apply "remove"]) := by
  refine ⟨?_, ?_⟩
  · rintro (h | h)
    · simp [delta, act, h]
    · simp only [delta, act, h]; split <;> simp
  · intro h1 h2 h3
    have h2' : ¬ idx < 0 := by omega
    simp [delta, act, h1, h2', h3, emit]

theorem create_delete_ok (cfg : HCfg) (r : ReqIn) (s : St) (v : JV) :
    (cfg.applyCreate ≠ .err → delta cfg r s (.create v) =
      eventShape cfg.applyCreate "create" (evSubj r (b!"create")) [] (listenersOf cfg (b!"create"))) ∧
    (cfg.applyDelete ≠ .err → delta cfg r s .delete =
      eventShape cfg.applyDelete "delete" (evSubj r (b!"delete")) [] (listenersOf cfg (b!"delete"))) ∧
    (cfg.applyCreate = .err → delta cfg r s (.create v) = [.apply "create"]) ∧
    (cfg.applyDelete = .err → delta cfg r s .delete = [.apply "delete"]) := by
  refine ⟨?_, ?_, ?_, ?_⟩
  · intro h3
    by_cases h : cfg.applyCreate = .absent <;>
      simp [delta, act, h, h3, emit, eventShape, svcEvent, addAll]
  · intro h3
    by_cases h : cfg.applyDelete = .absent <;>
      simp [delta, act, h, h3, emit, eventShape, svcEvent, addAll]
  · intro h3; simp [delta, act, h3, emit]
  · intro h3; simp [delta, act, h3, emit]

/-- custom events: a reserved or malformed name has no effect; otherwise publish then listeners -/
theorem custom_event (cfg : HCfg) (r : ReqIn) (s : St) (name : Str) (payload : Option JV) :
    (name ∈ reserved ∨ isValidPartB name = false → delta cfg r s (.custom name payload) = []) ∧
    (name ∉ reserved → isValidPartB name = true → (∀ v, payload = some v → v.ok = true) →
      ∃ pl, delta cfg r s (.custom name payload) = [.pub (evSubj r name) pl] ++ listenersOf cfg name) := by
  refine ⟨?_, ?_⟩
  · rintro (h | h)
    · simp [delta, act, h]
    · simp only [delta, act, h]; split <;> simp
  · intro h1 h2 h3
    cases payload with
    | none => exact ⟨[], by simp [delta, act, h1, h2, svcEvent, emit, addAll]⟩
    | some v => exact ⟨v.text, by simp [delta, act, h1, h2, svcEvent, h3 v rfl, emit, addAll]⟩

/-- listeners receive the event name of the event that was published just before them, in
registration order -/
theorem listeners_in_order (cfg : HCfg) (name : Str) :
    listenersOf cfg name = (List.range cfg.listeners).map (fun i => Eff.listener i name) := by
  rfl

/-- the reserved event names of the model are exactly the ones `Resource.Event` refuses in the
current source (regenerated on every run) -/
theorem reserved_names_match : Generated.reservedEvents = reserved := by
  decide +kernel

/-- In the source of every event method the effects appear in the order the model assumes: the apply
handler is called (at most once) before the single publish, the single listener loop follows the
publish, and no `return` or `panic` sits between or after them — re-proved against the statement
order extracted from resource.go on every run (`Generated/Access.lean`). -/
def orderOk (xs : List String) : Bool :=
  let tail := xs.dropWhile (fun x => x == "panic" || x == "return")
  let tail := if tail.head? == some "apply" then (tail.drop 1).dropWhile (fun x => x == "panic" || x == "return") else tail
  tail == ["publish", "listeners"] && xs.count "apply" ≤ 1

theorem order_table :
    ["resource.Event", "resource.ChangeEvent", "resource.AddEvent", "resource.RemoveEvent",
     "resource.CreateEvent", "resource.DeleteEvent"].all
      (fun m => (Generated.eventOrder.lookup m).map orderOk == some true) = true := by
  decide +kernel

/-- only `Event` has no apply handler; the five resource events call theirs before publishing -/
theorem apply_before_publish :
    ["resource.ChangeEvent", "resource.AddEvent", "resource.RemoveEvent", "resource.CreateEvent",
     "resource.DeleteEvent"].all
      (fun m => match Generated.eventOrder.lookup m with
        | some xs => (xs.takeWhile (· != "publish")).contains "apply"
        | none => false) = true := by
  decide +kernel

/-! ## non-vacuity -/
example : orderOk ["panic", "apply", "panic", "listeners", "publish"] = false ∧
    orderOk ["apply", "panic", "publish", "return", "listeners"] = false := by decide +kernel

example : eventShape .ok "add" [1] [2] [.listener 0 [3]] = [.apply "add", .pub [1] [2], .listener 0 [3]] := by decide

end GoRes.Props.C08
