import GoRes.Model.Req
import GoRes.Lemmas.Req
import GoRes.Model.Json
import GoRes.Generated.Facts
import GoRes.Model.SvcApi
import GoRes.Lemmas.SvcApi
/-! # C07 — everything the service publishes is protocol-conformant

Conformance is stated on the structure of what `process` publishes: every message is built
by one of the documented constructors, on a documented subject.  That the rendered text is
the JSON it looks like is checked on the implementation side by the driver's JSON-level
judge (`Driver/Req.lean`, `conformant`) on every message the real service publishes. -/
namespace GoRes.Props.C07
open GoRes GoRes.Req

/-- a response payload: exactly one of result / resource / error (an error has a code and a
message), plus an optional rendered meta object -/
inductive IsResponse (allowMeta : Bool) : Str → Prop
  | result (v : Str) (m : Option Str) : (m.isSome → allowMeta = true) → IsResponse allowMeta (withMeta [(b!"result", v)] m)
  | resource (rid : Str) (m : Option Str) : (m.isSome → allowMeta = true) → isValidRIDB rid = true →
      IsResponse allowMeta (withMeta [(b!"resource", refObj rid)] m)
  | error (c msg : Str) (m : Option Str) : (m.isSome → allowMeta = true) → IsResponse allowMeta (withMeta [(b!"error", errObj c msg)] m)

/-- a pre-response: `timeout:"<ms>"` with a non-negative number -/
def IsPreResponse (p : Str) : Prop := ∃ ms : Int, 0 ≤ ms ∧ p = b!"timeout:\"" ++ intText ms ++ [34]

/-- a documented message for request `r` -/
def Conformant (r : ReqIn) : Eff → Prop
  | .pub subj payload =>
    (subj = replySubj ∧ (IsPreResponse payload ∨ IsResponse (r.isHTTP && r.payload == .ok) payload)) ∨
    (∃ name, subj = evSubj r name ∧ (name ∈ [b!"change", b!"add", b!"remove", b!"create", b!"delete", b!"reaccess"] ∨
        (isValidPartB name = true ∧ name ∉ reserved))) ∨
    (subj = b!"conn." ++ r.cid ++ b!".token")
  | _ => True

theorem respShape_isResponse {allow : Bool} {m0 : Option Str} {p : Str} (h : RespShape m0 p)
    (hm : m0.isSome → allow = true) : IsResponse allow p := by
  cases h with
  | result v m hm' => exact .result v m (by rcases hm' with rfl | rfl <;> simp_all)
  | resource rid m hm' hv => exact .resource rid m (by rcases hm' with rfl | rfl <;> simp_all) hv
  | error c msg m hm' => exact .error c msg m (by rcases hm' with rfl | rfl <;> simp_all)

theorem aux_conformant {r : ReqIn} {e : Eff} (h : Aux r e) : Conformant r e := by
  cases h with
  | apply k => trivial
  | listener i n => trivial
  | ev name payload hn => exact Or.inr (Or.inl ⟨name, rfl, hn⟩)
  | tok payload => exact Or.inr (Or.inr rfl)
  | pre ms hms => exact Or.inl ⟨rfl, Or.inl ⟨ms, hms, rfl⟩⟩

/-- the invariant of a running handler: everything published so far is conformant, and meta is
only ever set on an HTTP request -/
def ConfInv (r : ReqIn) (s : St) : Prop :=
  (∀ e ∈ s.effs, Conformant r e) ∧ ((metaOf s).isSome → r.isHTTP = true)

theorem next_confInv {r : ReqIn} {s s' : St} (hok : r.isHTTP = true → r.payload = .ok)
    (h : Next r s s') (hi : ConfInv r s) : ConfInv r s' := by
  obtain ⟨h1, h2⟩ := hi
  cases h with
  | same => exact ⟨h1, h2⟩
  | reply p hr hp =>
    refine ⟨?_, h2⟩
    intro e he
    rcases List.mem_append.1 he with he | he
    · exact h1 e he
    · rw [List.mem_singleton.1 he]
      exact Or.inl ⟨rfl, Or.inr (respShape_isResponse hp (fun hm => by simp [h2 hm, hok (h2 hm)]))⟩
  | aux es hes =>
    refine ⟨?_, h2⟩
    intro e he
    rcases List.mem_append.1 he with he | he
    · exact h1 e he
    · exact aux_conformant (hes e he)
  | setMeta mt hh hr => exact ⟨h1, fun _ => hh⟩

/-- **everything published while processing a request is conformant** for the request as the
handler sees it (`normReq`: a request with an empty payload has all its fields at their zero
value, in particular an empty connection ID) -/
theorem all_conformant_norm (cfg : HCfg) (r : ReqIn) (script : List Action) :
    ∀ e ∈ process cfg r script, Conformant (normReq r) e := by
  rcases process_cases cfg r script with ⟨_, he⟩ | ⟨_, p, hp, he⟩ | ⟨_, kind, _, hb, _, he⟩
  · simp [he]
  · rw [he]; intro e hm
    rw [List.mem_singleton.1 hm]
    exact Or.inl ⟨rfl, Or.inr (respShape_isResponse hp (by simp))⟩
  · have hok : (normReq r).isHTTP = true → (normReq r).payload = .ok := by
      intro hh
      obtain ⟨_, hne⟩ := normReq_isHTTP r hh
      rw [normReq_of_ne_empty r hne]
      cases hp : r.payload <;> simp_all
    have hi : ConfInv (normReq r) (stepSt (runScript cfg (normReq r) (seen0 kind (normReq r)) script)) :=
      runScript_next cfg (normReq r) (ConfInv (normReq r)) (fun _ _ hn h => next_confInv hok hn h) script _
        ⟨by simp [seen0, Conformant], by simp⟩
    rw [he]
    rcases finish_cases (runScript cfg (normReq r) (seen0 kind (normReq r)) script) with ⟨_, h2⟩ | ⟨_, p, hp, h2⟩
    · rw [h2]; exact hi.1
    · rw [h2]; intro e hm
      rcases List.mem_append.1 hm with hm | hm
      · exact hi.1 e hm
      · rw [List.mem_singleton.1 hm]
        exact Or.inl ⟨rfl, Or.inr (respShape_isResponse hp (fun hm => by simp [hi.2 hm, hok (hi.2 hm)]))⟩

theorem conformant_of_norm {r : ReqIn} {e : Eff} (hc : r.payload = .empty → r.cid = [])
    (h : Conformant (normReq r) e) : Conformant r e := by
  by_cases hp : r.payload = .empty
  · cases e with
    | pub subj payload =>
      have e1 : ((normReq r).isHTTP && (normReq r).payload == .ok) = (r.isHTTP && r.payload == .ok) := by
        simp [normReq, hp]
      have e2 : (normReq r).cid = r.cid := by simp [normReq, hp, hc hp]
      simpa only [Conformant, evSubj, e1, e2, normReq_rname] using h
    | apply k => trivial
    | listener i n => trivial
    | seen d => trivial
  · rwa [normReq_of_ne_empty r hp] at h

/-- **everything published while processing a request is conformant**, for every handler script.

STATEMENT REPAIRED: the hypothesis `hc` was added.  `ReqIn` lets `cid` and `payload` vary
independently, but a request with an empty payload has no connection ID (`process` zeroes the
field), so a token event is then published on `conn..token`; without `hc` the statement fails for
`payload := .empty, cid := [99]`, script `[.tokenEvent none]` (see `counterexample` below).
`all_conformant_norm` is the unconditional form. -/
theorem all_conformant (cfg : HCfg) (r : ReqIn) (script : List Action)
    (hc : r.payload = .empty → r.cid = []) :
    ∀ e ∈ process cfg r script, Conformant r e :=
  fun e he => conformant_of_norm hc (all_conformant_norm cfg r script e he)

/-- meta appears only on responses to requests flagged as HTTP -/
theorem meta_only_http (r : ReqIn) (s : St) (cfg : HCfg) (script : List Action) (h : r.isHTTP = false)
    (hs : s.mt.render = none) : (stepSt (runScript cfg r s script)).mt.render = none := by
  refine runScript_next cfg r (fun s' => s'.mt.render = none) ?_ script s hs
  intro s1 s2 hn h1
  rw [hn.meta_http h]; exact h1

/-- a handler-supplied value that cannot be marshalled produces a `system.internalError`
response, never a malformed or missing message -/
theorem unmarshalable_is_internal_error (cfg : HCfg) (r : ReqIn) (s : St) (hr : s.replied = false) (t q : Str) :
    (stepSt (act cfg r s (.ok (some ⟨false, t⟩)))).effs = s.effs ++ [.pub replySubj (respError codeInternal goErr none)] ∧
    (stepSt (act cfg r s (.model ⟨false, t⟩ q))).effs = s.effs ++ [.pub replySubj (respError codeInternal goErr none)] ∧
    (stepSt (act cfg r s (.collection ⟨false, t⟩ q))).effs = s.effs ++ [.pub replySubj (respError codeInternal goErr none)] := by
  refine ⟨?_, ?_, ?_⟩ <;> simp [act, success, reply, hr, emit]

/-- an unmarshalable event value publishes nothing (never a malformed event) -/
theorem unmarshalable_event_silent (s : St) (subj t : Str) : svcEvent s subj (some ⟨false, t⟩) = s := by
  simp [svcEvent]

/-- every event type carries its documented fields: change → `values` object, add → `idx` and
`value`, remove → `idx`, create/delete/reaccess → empty payload -/
theorem add_payload (cfg : HCfg) (r : ReqIn) (s : St) (v : Str) (idx : Int) (h1 : cfg.typ ≠ 1) (h2 : 0 ≤ idx)
    (h3 : cfg.applyAdd = .absent) :
    (stepSt (act cfg r s (.add ⟨true, v⟩ idx))).effs =
      s.effs ++ [.pub (evSubj r (b!"add")) (obj [(b!"idx", intText idx), (b!"value", v)])] ++ listenersOf cfg (b!"add") := by
  have h2' : ¬ idx < 0 := by omega
  simp [act, h1, h2', h3, svcEvent, emit, addAll]

theorem remove_payload (cfg : HCfg) (r : ReqIn) (s : St) (idx : Int) (h1 : cfg.typ ≠ 1) (h2 : 0 ≤ idx)
    (h3 : cfg.applyRemove = .absent) :
    (stepSt (act cfg r s (.remove idx))).effs =
      s.effs ++ [.pub (evSubj r (b!"remove")) (obj [(b!"idx", intText idx)])] ++ listenersOf cfg (b!"remove") := by
  have h2' : ¬ idx < 0 := by omega
  simp [act, h1, h2', h3, svcEvent, emit, addAll]

theorem create_delete_payload (cfg : HCfg) (r : ReqIn) (s : St) (v : JV)
    (h3 : cfg.applyCreate = .absent) (h4 : cfg.applyDelete = .absent) :
    (stepSt (act cfg r s (.create v))).effs = s.effs ++ [.pub (evSubj r (b!"create")) []] ++ listenersOf cfg (b!"create") ∧
    (stepSt (act cfg r s .delete)).effs = s.effs ++ [.pub (evSubj r (b!"delete")) []] ++ listenersOf cfg (b!"delete") := by
  constructor <;> simp [act, h3, h4, svcEvent, emit, addAll]

/-! ## the side condition of `all_conformant` is needed -/
def cfgCE : HCfg := ⟨true, false, false, [], [], 0, .absent, .absent, .absent, .absent, .absent, 0, []⟩
def reqCE : ReqIn := ⟨.access, [97], [], true, [], .empty, [99], false, none, none, []⟩

/-- without `hc`, `all_conformant` fails: an access request with an empty payload but `cid = "c"`
whose handler emits a token event, which goes to `conn..token` -/
theorem counterexample : ¬ ∀ e ∈ process cfgCE reqCE [.tokenEvent none], Conformant reqCE e := by
  intro h
  have hm : Eff.pub (b!"conn..token") (obj [(b!"token", b!"null")]) ∈ process cfgCE reqCE [.tokenEvent none] := by
    simp [process, cfgCE, reqCE, pick, runScript, act, svcEvent, emit]
  have := h _ hm
  simp [Conformant, reqCE, replySubj, evSubj] at this

/-! ## facts regenerated from the source on every run (`Generated/Facts.lean`) -/

/-- a static response: a JSON object with exactly one of `result` / `error`, no other member, an
error having a non-empty string `code` and a string `message` -/
def staticOk (payload : Str) : Bool :=
  match Json.parse payload with
  | some (.obj ms) =>
    (match ms with
     | [(k, v)] =>
       if k = b!"result" then true
       else if k = b!"error" then
         (match v.get? "code", v.get? "message" with
          | some (.str c), some (.str _) => !c.isEmpty && v.keys.length = 2
          | _, _ => false)
       else false
     | _ => false)
  | _ => false

/-- **every static response in request.go is protocol-conformant** — re-proved against the byte
literals extracted from the current source -/
theorem static_conformant : ∀ r ∈ Generated.staticResponses, staticOk r.2 = true := by
  decide +kernel

/-- the error codes of errors.go are the ones the model (and the protocol) uses -/
theorem error_codes_match :
    Generated.errorCodes.lookup "CodeInternalError" = some codeInternal ∧
    Generated.errorCodes.lookup "CodeNotFound" = some codeNotFound ∧
    Generated.errorCodes.lookup "CodeMethodNotFound" = some codeMethodNotFound ∧
    Generated.errorCodes.lookup "CodeInvalidParams" = some codeInvalidParams ∧
    Generated.errorCodes.lookup "CodeInvalidQuery" = some codeInvalidQuery ∧
    Generated.errorCodes.lookup "CodeAccessDenied" = some codeAccessDenied := by
  decide +kernel

/-- the static responses the model answers with are the source's -/
theorem static_responses_match :
    Generated.staticResponses.lookup "responseMissingResponse" = some missingResponse ∧
    Generated.staticResponses.lookup "responseNotFound" = some (respError codeNotFound b!"Not found" none) ∧
    Generated.staticResponses.lookup "responseMethodNotFound" = some (respError codeMethodNotFound b!"Method not found" none) ∧
    Generated.staticResponses.lookup "responseInternalError" = some (respError codeInternal b!"Internal error" none) ∧
    Generated.staticResponses.lookup "responseSuccess" = some (respResult b!"null" none) := by
  decide +kernel



/-! ## publications made through the service API (`Model/SvcApi.lean`)

`With`/`Resource` on any *valid* resource id — with or without a query part, whatever follows
the `?` — then an event; `TokenReset`; `TokenEventWithID`. -/

open GoRes.SvcApi in
/-- every message published from a `With` callback is on a NATS subject one may publish on;
events are `event.<name>.<event>` for exactly the name part of the resource id, which is a
valid resource name (no `?`, no wildcard, no empty token), and a reset names exactly it -/
theorem with_publications_conformant (pats : List Str) (rid : Str) (act : Act) (l : List Pub)
    (hv : Pattern.isValidRID rid = true) (h : withOp pats rid act = .pubs l) :
    validName (parseRID rid).1 = true ∧
    ∀ p ∈ l, natsSubject p.subj = true ∧
      ((∃ name, p.subj = eventSubj (parseRID rid).1 name ∧ natsToken name = true) ∨
       (p.subj = b!"system.reset" ∧ p.payload = b!"{\"resources\":" ++ jsonList [(parseRID rid).1] ++ [125])) := by
  exact SvcApi.with_conformant pats rid act l hv h

open GoRes.SvcApi in
/-- an event with a reserved or malformed name publishes nothing -/
theorem with_invalid_event_name_silent (pats : List Str) (rid name : Str)
    (hn : Req.reserved.contains name = true ∨ Req.isValidPartB name = false) :
    withOp pats rid (.custom name) = .err ∨ withOp pats rid (.custom name) = .panic := by
  exact SvcApi.with_invalid_name pats rid name hn

open GoRes.SvcApi in
/-- `TokenReset` publishes only `system.tokenReset` with a concrete subject (no wildcard token,
no empty token, no whitespace) and at least one token id; otherwise it publishes nothing -/
theorem token_reset_conformant (subj : Str) (tids : List Str) (l : List Pub)
    (h : tokenReset subj tids = .pubs l) :
    (l = [] ∧ tids = []) ∨
    (natsSubject subj = true ∧ tids ≠ [] ∧
      l = [⟨b!"system.tokenReset", b!"{\"subject\":" ++ SvcApi.q subj ++ b!",\"tids\":" ++ jsonList tids ++ [125]⟩]) := by
  exact SvcApi.token_reset_ok subj tids l h

open GoRes.SvcApi in
/-- `TokenEventWithID` publishes only on `conn.<cid>.token` for a connection id that is a single
valid token; an unmarshalable token publishes nothing -/
theorem token_event_conformant (cid tid : Str) (tok : Option Str) (l : List Pub)
    (h : tokenEvent cid tid tok = .pubs l) :
    natsToken cid = true ∧ (tok = none → l = []) ∧
    ∀ p ∈ l, p.subj = b!"conn." ++ cid ++ b!".token" ∧ natsSubject p.subj = true := by
  exact SvcApi.token_event_ok cid tid tok l h

/-! ### non-vacuity of the service-API theorems: concrete calls satisfying their hypotheses -/

/-- `with_publications_conformant`: a valid resource id with an (empty) query part, a custom event -/
example : SvcApi.withOp SvcApi.patterns b!"svc.model.foo?" (.custom b!"upd") =
      .pubs [⟨b!"event.svc.model.foo.upd", b!"{\"v\":1}"⟩] ∧
    Pattern.isValidRID b!"svc.model.foo?" = true := by decide +kernel

/-- `with_publications_conformant`: a query part containing wildcard characters, a reset -/
example : SvcApi.withOp SvcApi.patterns b!"svc.model.foo?q=*.>" .reset =
      .pubs [⟨b!"system.reset", b!"{\"resources\":[\"svc.model.foo\"]}"⟩] ∧
    Pattern.isValidRID b!"svc.model.foo?q=*.>" = true := by decide +kernel

/-- `with_invalid_event_name_silent`: a reserved event name on a matching resource panics -/
example : Req.reserved.contains b!"change" = true ∧
    SvcApi.withOp SvcApi.patterns b!"svc.static" (.custom b!"change") = .panic := by decide +kernel

/-- `token_reset_conformant`: a wildcard subject is refused, a concrete one is published -/
example : SvcApi.tokenReset b!"auth.>" [b!"t1"] = .panic := by decide +kernel
example : SvcApi.tokenReset b!"auth.user" [b!"t1"] =
    .pubs [⟨b!"system.tokenReset", b!"{\"subject\":\"auth.user\",\"tids\":[\"t1\"]}"⟩] := by decide +kernel

/-- `token_event_conformant` -/
example : SvcApi.tokenEvent b!"cid1" b!"t1" (some b!"{}") =
    .pubs [⟨b!"conn.cid1.token", b!"{\"tid\":\"t1\",\"token\":{}}"⟩] := by decide +kernel

/-! ## non-vacuity -/
example : IsResponse false (withMeta [(b!"result", b!"null")] none) := .result _ none (by simp)

end GoRes.Props.C07
