import GoRes.Model.Req
import GoRes.Lemmas.Req
/-! # C07 — everything the service publishes is protocol-conformant

Conformance is stated on the structure of what `process` publishes: every message is built
by one of the documented constructors, on a documented subject.  That the rendered text is
the JSON it looks like is checked on the implementation side by the driver's JSON-level
judge (`Driver/Req.lean`, `conformant`) on every message the real service publishes. -/
namespace GoRes.Props.C07
open GoRes GoRes.Req

/-- a response payload: exactly one of result / resource / error (an error has a code and a
message), plus an optional rendered meta object -/
inductive IsResponse (allowMeta : Bool) : Str → Prop
  | result (v : Str) (m : Option Str) : (m.isSome → allowMeta = true) → IsResponse allowMeta (withMeta [(b!"result", v)] m)
  | resource (rid : Str) (m : Option Str) : (m.isSome → allowMeta = true) → isValidRIDB rid = true →
      IsResponse allowMeta (withMeta [(b!"resource", refObj rid)] m)
  | error (c msg : Str) (m : Option Str) : (m.isSome → allowMeta = true) → IsResponse allowMeta (withMeta [(b!"error", errObj c msg)] m)

/-- a pre-response: `timeout:"<ms>"` with a non-negative number -/
def IsPreResponse (p : Str) : Prop := ∃ ms : Int, 0 ≤ ms ∧ p = b!"timeout:\"" ++ intText ms ++ [34]

/-- a documented message for request `r` -/
def Conformant (r : ReqIn) : Eff → Prop
  | .pub subj payload =>
    (subj = replySubj ∧ (IsPreResponse payload ∨ IsResponse (r.isHTTP && r.payload == .ok) payload)) ∨
    (∃ name, subj = evSubj r name ∧ (name ∈ [b!"change", b!"add", b!"remove", b!"create", b!"delete", b!"reaccess"] ∨
        (isValidPartB name = true ∧ name ∉ reserved))) ∨
    (subj = b!"conn." ++ r.cid ++ b!".token")
  | _ => True

/-- **everything published while processing a request is conformant**, for every handler script -/
theorem all_conformant (cfg : HCfg) (r : ReqIn) (script : List Action) :
    ∀ e ∈ process cfg r script, Conformant r e := by
  sorry

/-- meta appears only on responses to requests flagged as HTTP -/
theorem meta_only_http (r : ReqIn) (s : St) (cfg : HCfg) (script : List Action) (h : r.isHTTP = false)
    (hs : s.mt.render = none) : (stepSt (runScript cfg r s script)).mt.render = none := by
  sorry

/-- a handler-supplied value that cannot be marshalled produces a `system.internalError`
response, never a malformed or missing message -/
theorem unmarshalable_is_internal_error (cfg : HCfg) (r : ReqIn) (s : St) (hr : s.replied = false) (t q : Str) :
    (stepSt (act cfg r s (.ok (some ⟨false, t⟩)))).effs = s.effs ++ [.pub replySubj (respError codeInternal goErr none)] ∧
    (stepSt (act cfg r s (.model ⟨false, t⟩ q))).effs = s.effs ++ [.pub replySubj (respError codeInternal goErr none)] ∧
    (stepSt (act cfg r s (.collection ⟨false, t⟩ q))).effs = s.effs ++ [.pub replySubj (respError codeInternal goErr none)] := by
  sorry

/-- an unmarshalable event value publishes nothing (never a malformed event) -/
theorem unmarshalable_event_silent (s : St) (subj t : Str) : svcEvent s subj (some ⟨false, t⟩) = s := by
  sorry

/-- every event type carries its documented fields: change → `values` object, add → `idx` and
`value`, remove → `idx`, create/delete/reaccess → empty payload -/
theorem add_payload (cfg : HCfg) (r : ReqIn) (s : St) (v : Str) (idx : Int) (h1 : cfg.typ ≠ 1) (h2 : 0 ≤ idx)
    (h3 : cfg.applyAdd = .absent) :
    (stepSt (act cfg r s (.add ⟨true, v⟩ idx))).effs =
      s.effs ++ [.pub (evSubj r (b!"add")) (obj [(b!"idx", intText idx), (b!"value", v)])] ++ listenersOf cfg (b!"add") := by
  sorry

theorem remove_payload (cfg : HCfg) (r : ReqIn) (s : St) (idx : Int) (h1 : cfg.typ ≠ 1) (h2 : 0 ≤ idx)
    (h3 : cfg.applyRemove = .absent) :
    (stepSt (act cfg r s (.remove idx))).effs =
      s.effs ++ [.pub (evSubj r (b!"remove")) (obj [(b!"idx", intText idx)])] ++ listenersOf cfg (b!"remove") := by
  sorry

theorem create_delete_payload (cfg : HCfg) (r : ReqIn) (s : St) (v : JV)
    (h3 : cfg.applyCreate = .absent) (h4 : cfg.applyDelete = .absent) :
    (stepSt (act cfg r s (.create v))).effs = s.effs ++ [.pub (evSubj r (b!"create")) []] ++ listenersOf cfg (b!"create") ∧
    (stepSt (act cfg r s .delete)).effs = s.effs ++ [.pub (evSubj r (b!"delete")) []] ++ listenersOf cfg (b!"delete") := by
  sorry

/-! ## non-vacuity -/
example : IsResponse false (withMeta [(b!"result", b!"null")] none) := .result _ none (by simp)

end GoRes.Props.C07
