import GoRes.Model.Index
import GoRes.Lemmas.Index
/-! # C14 — query subscribers are always told when their result may have changed -/
namespace GoRes.Props.C14
open GoRes GoRes.Index

/-- the query-change callbacks run exactly when the mutation changes the value's key in some
index (once per mutation: `updateIndex` is called once per change, in task order) -/
theorem callback_iff_key_change {V : Type} (idxs : List (Idx V)) (id : Bytes) (before after : Option V) (db : DB) :
    (updateIndex idxs id before after db).2 = idxs.any (fun ix => before.bind ix.key != after.bind ix.key) := by
  exact updateIndex_snd idxs id before after db

/-- **sound**: if the mutation changes what the query returns, the change reports the query as
affected — for every prefix, filter, window and direction -/
theorem affected_sound {V : Type} (ix : Idx V) (vals : List (Bytes × V)) (id : Bytes) (after : Option V)
    (pre : Bytes) (filter : Bytes → Bool) (offset limit : Int) (reverse : Bool)
    (hd : (vals.map (·.1)).Nodup)
    (hne : spec (entriesOf ix vals) pre filter offset limit reverse ≠
           spec (entriesOf ix (vput vals id after)) pre filter offset limit reverse) :
    affectsQuery ix pre (some filter) (vget vals id) after = true := by
  cases h : affectsQuery ix pre (some filter) (vget vals id) after with
  | true => rfl
  | false =>
    exfalso
    apply hne
    -- the hits of the query are the same before and after, and sorting commutes with filtering
    have key := hits_eq_of_not_affects ix vals id after pre filter hd h
    have e : ∀ l : List (Bytes × Bytes),
        (sortPairs l).filter (fun e => pre.isPrefixOf e.1 && filter e.1) = sortPairs (l.filter (hit pre filter)) :=
      fun l => filter_sortPairs (hit pre filter) l
    simp only [spec, e, key]

/-- **unaffected when nothing matches**: if neither the old nor the new key matches the query
(prefix and filter), the query is reported unaffected; a value that is not indexed matches nothing -/
theorem unaffected_when_no_match {V : Type} (ix : Idx V) (pre : Bytes) (filter : Option (Bytes → Bool)) (before after : Option V)
    (hb : ∀ k, before.bind ix.key = some k → ¬ (pre.isPrefixOf k = true ∧ (∀ f, filter = some f → f k = true)))
    (ha : ∀ k, after.bind ix.key = some k → ¬ (pre.isPrefixOf k = true ∧ (∀ f, filter = some f → f k = true))) :
    affectsQuery ix pre filter before after = false := by
  unfold affectsQuery
  cases filter <;> cases hbk : before.bind ix.key <;> cases hak : after.bind ix.key <;>
    simp_all [← Bool.not_eq_true]

/-- a mutation that keeps the key is never reported -/
theorem same_key_unaffected {V : Type} (ix : Idx V) (pre : Bytes) (filter : Option (Bytes → Bool)) (before after : Option V)
    (h : before.bind ix.key = after.bind ix.key) : affectsQuery ix pre filter before after = false := by
  simp [affectsQuery, h]

/-! ## non-vacuity -/
example : affectsQuery (⟨[107], fun (v : Bytes) => some v⟩ : Idx Bytes) [97] none (some [97, 98]) (some [98]) = true := by decide

end GoRes.Props.C14
