import GoRes.Model.Index
import GoRes.Lemmas.Index
/-! # C14 — query subscribers are always told when their result may have changed -/
namespace GoRes.Props.C14
open GoRes GoRes.Index

/-- the query-change callbacks run exactly when the mutation changes the value's key in some
index (once per mutation: `updateIndex` is called once per change, in task order) -/
theorem callback_iff_key_change {V : Type} (idxs : List (Idx V)) (id : Bytes) (before after : Option V) (db : DB) :
    (updateIndex idxs id before after db).2 = idxs.any (fun ix => before.bind ix.key != after.bind ix.key) := by
  sorry

/-- **sound**: if the mutation changes what the query returns, the change reports the query as
affected — for every prefix, filter, window and direction -/
theorem affected_sound {V : Type} (ix : Idx V) (vals : List (Bytes × V)) (id : Bytes) (after : Option V)
    (pre : Bytes) (filter : Bytes → Bool) (offset limit : Int) (reverse : Bool)
    (hd : (vals.map (·.1)).Nodup)
    (hne : spec (entriesOf ix vals) pre filter offset limit reverse ≠
           spec (entriesOf ix (vput vals id after)) pre filter offset limit reverse) :
    affectsQuery ix pre (some filter) (vget vals id) after = true := by
  sorry

/-- **unaffected when nothing matches**: if neither the old nor the new key matches the query
(prefix and filter), the query is reported unaffected; a value that is not indexed matches nothing -/
theorem unaffected_when_no_match {V : Type} (ix : Idx V) (pre : Bytes) (filter : Option (Bytes → Bool)) (before after : Option V)
    (hb : ∀ k, before.bind ix.key = some k → ¬ (pre.isPrefixOf k = true ∧ (∀ f, filter = some f → f k = true)))
    (ha : ∀ k, after.bind ix.key = some k → ¬ (pre.isPrefixOf k = true ∧ (∀ f, filter = some f → f k = true))) :
    affectsQuery ix pre filter before after = false := by
  sorry

/-- a mutation that keeps the key is never reported -/
theorem same_key_unaffected {V : Type} (ix : Idx V) (pre : Bytes) (filter : Option (Bytes → Bool)) (before after : Option V)
    (h : before.bind ix.key = after.bind ix.key) : affectsQuery ix pre filter before after = false := by
  sorry

/-! ## non-vacuity -/
example : affectsQuery (⟨[107], fun (v : Bytes) => some v⟩ : Idx Bytes) [97] none (some [97, 98]) (some [98]) = true := by decide

end GoRes.Props.C14
