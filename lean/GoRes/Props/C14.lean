import GoRes.Model.Index
import GoRes.Lemmas.Index
import GoRes.Model.QueryHandler
import GoRes.Lemmas.QueryHandler
/-! # C14 — query subscribers are always told when their result may have changed -/
namespace GoRes.Props.C14
open GoRes GoRes.Index

/-- the query-change callbacks run exactly when the mutation changes the value's key in some
index (once per mutation: `updateIndex` is called once per change, in task order) -/
theorem callback_iff_key_change {V : Type} (idxs : List (Idx V)) (id : Bytes) (before after : Option V) (db : DB) :
    (updateIndex idxs id before after db).2 = idxs.any (fun ix => before.bind ix.key != after.bind ix.key) := by
  exact updateIndex_snd idxs id before after db

/-- **sound**: if the mutation changes what the query returns, the change reports the query as
affected — for every prefix, filter, window and direction -/
theorem affected_sound {V : Type} (ix : Idx V) (vals : List (Bytes × V)) (id : Bytes) (after : Option V)
    (pre : Bytes) (filter : Bytes → Bool) (offset limit : Int) (reverse : Bool)
    (hd : (vals.map (·.1)).Nodup)
    (hne : spec (entriesOf ix vals) pre filter offset limit reverse ≠
           spec (entriesOf ix (vput vals id after)) pre filter offset limit reverse) :
    affectsQuery ix pre (some filter) (vget vals id) after = true := by
  cases h : affectsQuery ix pre (some filter) (vget vals id) after with
  | true => rfl
  | false =>
    exfalso
    apply hne
    -- the hits of the query are the same before and after, and sorting commutes with filtering
    have key := hits_eq_of_not_affects ix vals id after pre filter hd h
    have e : ∀ l : List (Bytes × Bytes),
        (sortPairs l).filter (fun e => pre.isPrefixOf e.1 && filter e.1) = sortPairs (l.filter (hit pre filter)) :=
      fun l => filter_sortPairs (hit pre filter) l
    simp only [spec, e, key]

/-- **unaffected when nothing matches**: if neither the old nor the new key matches the query
(prefix and filter), the query is reported unaffected; a value that is not indexed matches nothing -/
theorem unaffected_when_no_match {V : Type} (ix : Idx V) (pre : Bytes) (filter : Option (Bytes → Bool)) (before after : Option V)
    (hb : ∀ k, before.bind ix.key = some k → ¬ (pre.isPrefixOf k = true ∧ (∀ f, filter = some f → f k = true)))
    (ha : ∀ k, after.bind ix.key = some k → ¬ (pre.isPrefixOf k = true ∧ (∀ f, filter = some f → f k = true))) :
    affectsQuery ix pre filter before after = false := by
  unfold affectsQuery
  cases filter <;> cases hbk : before.bind ix.key <;> cases hak : after.bind ix.key <;>
    simp_all [← Bool.not_eq_true]

/-- a mutation that keeps the key is never reported -/
theorem same_key_unaffected {V : Type} (ix : Idx V) (pre : Bytes) (filter : Option (Bytes → Bool)) (before after : Option V)
    (h : before.bind ix.key = after.bind ix.key) : affectsQuery ix pre filter before after = false := by
  simp [affectsQuery, h]

/-! ## through the query handler (`store/querystorehandler.go`)

A client holds the (transformed) result of a query. When the query store reports a change,
the handler tells it something (`resourceEvent` for an ordinary resource, `queryRequest` for
the client's query request on a query resource); after reacting to it the client holds what
a fresh get serves — provided the query store's `Events` answer is sound for the change of
the result. -/

open GoRes.QueryHandler in
/-- ordinary resources: reset → the client fetches again; events → it applies them -/
theorem resource_client_coherent (tr : Trans) (t : RidOf) (a : Answer) (old new : List Bytes)
    (hold : old.Nodup) (hs : soundAnswer a old new) :
    clientApply (transformResult tr t old) (resourceEvent tr t a (transformResult tr t new)) = transformResult tr t new := by
  exact QueryHandler.resource_coherent tr t a old new hold hs

open GoRes.QueryHandler in
/-- query resources: the answer to the client's query request is a new result or events -/
theorem query_client_coherent (tr : Trans) (t : RidOf) (a : Answer) (old new : List Bytes)
    (hold : old.Nodup) (hs : soundAnswer a old new) :
    clientApply (transformResult tr t old) (queryRequest tr t a (transformResult tr t new)) = transformResult tr t new := by
  exact QueryHandler.query_coherent tr t a old new hold hs

open GoRes.QueryHandler in
/-- BadgerDB's `queryChange.Events` (no events, reset = affected) is a sound answer for every
mutation and every query: by `affected_sound` -/
theorem badger_answer_sound {V : Type} (ix : Idx V) (vals : List (Bytes × V)) (id : Bytes) (after : Option V)
    (pre : Bytes) (filter : Bytes → Bool) (offset limit : Int) (reverse : Bool)
    (hd : (vals.map (·.1)).Nodup) :
    soundAnswer (badgerAnswer ix pre (some filter) (vget vals id) after)
      (spec (entriesOf ix vals) pre filter offset limit reverse)
      (spec (entriesOf ix (vput vals id after)) pre filter offset limit reverse) := by
  unfold soundAnswer badgerAnswer
  by_cases h : affectsQuery ix pre (some filter) (vget vals id) after = true
  · exact Or.inl h
  · right
    have heq : spec (entriesOf ix vals) pre filter offset limit reverse =
        spec (entriesOf ix (vput vals id after)) pre filter offset limit reverse := by
      apply Classical.byContradiction
      intro hne
      exact h (affected_sound ix vals id after pre filter offset limit reverse hd hne)
    simp [wfEvents, heq]

open GoRes.QueryHandler in
/-- **end to end**: with the BadgerDB query store behind the handler, a client holding a query
result — on an ordinary or on a query resource, with any of the stock transformers — holds a
fresh get's result after every mutation, for every query (prefix, filter, window, direction) -/
theorem badger_clients_coherent {V : Type} (ix : Idx V) (vals : List (Bytes × V)) (id : Bytes) (after : Option V)
    (pre : Bytes) (filter : Bytes → Bool) (offset limit : Int) (reverse : Bool) (tr : Trans) (t : RidOf)
    (hd : (vals.map (·.1)).Nodup) :
    let old := spec (entriesOf ix vals) pre filter offset limit reverse
    let new := spec (entriesOf ix (vput vals id after)) pre filter offset limit reverse
    let a := badgerAnswer ix pre (some filter) (vget vals id) after
    clientApply (transformResult tr t old) (resourceEvent tr t a (transformResult tr t new)) = transformResult tr t new ∧
    clientApply (transformResult tr t old) (queryRequest tr t a (transformResult tr t new)) = transformResult tr t new := by
  intro old new a
  have hs := badger_answer_sound ix vals id after pre filter offset limit reverse hd
  have hnd : old.Nodup := QueryHandler.spec_nodup ix vals pre filter offset limit reverse hd
  exact ⟨resource_client_coherent tr t a old new hnd hs, query_client_coherent tr t a old new hnd hs⟩

/-! ## non-vacuity -/
example : affectsQuery (⟨[107], fun (v : Bytes) => some v⟩ : Idx Bytes) [97] none (some [97, 98]) (some [98]) = true := by decide

end GoRes.Props.C14
