import GoRes.Model.StoreMap
import GoRes.Lemmas.StoreMap
import GoRes.Model.Lock
/-! # C11 — stores behave like a per-id linearizable map with exact change callbacks

The sequential core: every operation of a transaction on an id, for every history. (That
operations of different goroutines on one id do not interleave is the per-id RW lock —
`keylock` for badgerstore, the store mutex for mockstore — exercised by the concurrent
correspondence run, not by these theorems.) -/
namespace GoRes.Props.C11
open GoRes GoRes.Index GoRes.StoreMap

variable {V : Type}

/-- the abstract map an operation is supposed to act on -/
def mapApply (m : Bytes → Option V) (id : Bytes) : Op V → (Bytes → Option V)
  | .create v _ => fun k => if k = id then some v else m k
  | .update v _ => fun k => if k = id then some v else m k
  | .delete => fun k => if k = id then none else m k
  | _ => m

def absMap (s : St V) : Bytes → Option V := fun k => vget s.vals k

def IdsDistinct (s : St V) : Prop := (s.vals.map (·.1)).Nodup

/-- **refinement**: a successful mutation acts on the state exactly as on a key-value map -/
theorem refines_map (s : St V) (hd : IdsDistinct s) (id : Bytes) (op : Op V) (cbs : List (Cb V)) (s' : St V)
    (h : exec s id op = (.ok, cbs, s')) : absMap s' = mapApply (absMap s) id op ∧ IdsDistinct s' := by
  cases op <;> simp only [exec] at h <;> (repeat' split at h) <;>
    simp only [Prod.mk.injEq, reduceCtorEq, false_and, true_and] at h
  all_goals obtain ⟨_, rfl⟩ := h
  · exact ⟨funext fun k => by simp [absMap, mapApply, vget_vset], nodup_vset _ _ _ hd⟩
  · exact ⟨funext fun k => by simp [absMap, mapApply, vget_vset], nodup_vset _ _ _ hd⟩
  · exact ⟨funext fun k => by simp [absMap, mapApply, vget_vdel], nodup_vdel _ _ hd⟩

/-- **error contract**: Create on an existing id fails with duplicate and on an empty id fails
unless the store generates ids; Update/Delete/Value on a missing id fail with not-found; a
wrong type or a veto fails; every failure leaves the state unchanged and runs no callback -/
theorem error_contract (s : St V) (id : Bytes) (op : Op V) (e : Err) (cbs : List (Cb V)) (s' : St V)
    (h : exec s id op = (.err e, cbs, s')) : s' = s ∧ cbs = [] := by
  cases op <;> simp only [exec] at h <;> (repeat' split at h) <;>
    simp only [Prod.mk.injEq, reduceCtorEq, false_and] at h <;>
    exact ⟨h.2.2.symm, h.2.1.symm⟩

theorem create_existing (s : St V) (id : Bytes) (v w : V) (hne : id ≠ []) (h : vget s.vals id = some w) :
    (exec s id (.create v true)).1 = .err .duplicate := by
  simp [exec, h, hne]

theorem create_empty_id (s : St V) (v : V) (hg : s.generatesIds = false) :
    (exec s [] (.create v true)).1 = .err .noId := by
  simp [exec, hg]

theorem missing_is_not_found (s : St V) (id : Bytes) (v : V) (h : vget s.vals id = none) :
    (exec s id (.update v true)).1 = .err .notFound ∧ (exec s id .delete).1 = .err .notFound ∧
    (exec s id .value).1 = .err .notFound ∧ (exec s id .exists_).1 = .bool false := by
  simp [exec, h]

/-- **exactly one callback per successful mutation**, with the id, the value immediately before
and the value immediately after -/
theorem callback_exact (s : St V) (id : Bytes) (op : Op V) (cbs : List (Cb V)) (s' : St V)
    (h : exec s id op = (.ok, cbs, s')) :
    ∃ cb, cbs = [cb] ∧ cb.id = id ∧ cb.before = vget s.vals id ∧ cb.after = vget s'.vals id := by
  cases op <;> simp only [exec] at h <;> (repeat' split at h) <;>
    simp only [Prod.mk.injEq, reduceCtorEq, false_and, true_and] at h
  all_goals obtain ⟨rfl, rfl⟩ := h
  all_goals simp_all [vget_vset, vget_vdel]

/-- **callback chain**: over any history, the callbacks of one id form a chain — each one's
`before` is the previous one's `after` (the first one's `before` is the initial value) -/
def chainFrom (id : Bytes) : Option V → List (Cb V) → Prop
  | _, [] => True
  | cur, cb :: rest => if cb.id = id then cb.before = cur ∧ chainFrom id cb.after rest else chainFrom id cur rest

theorem callback_chain (s : St V) (hd : IdsDistinct s) (hist : List (Bytes × Op V)) (id : Bytes) :
    chainFrom id (vget s.vals id) (run s hist).1 := by
  have _h := hd; clear _h hd  -- (distinct ids are not needed for this property)
  induction hist generalizing s with
  | nil => simp [run, chainFrom]
  | cons x rest ih =>
    obtain ⟨id0, op⟩ := x
    simp only [run]
    have ih' := ih (exec s id0 op).2.2
    rcases exec_cases s id0 op with ⟨h1, h2⟩ | ⟨a, h1, h2⟩
    · rw [h2] at ih'
      rw [h1, h2]
      simpa using ih'
    · rw [h1]
      simp only [List.singleton_append, chainFrom]
      rw [h2 id] at ih'
      by_cases hid : id0 = id
      · subst hid; simpa using ih'
      · have : ¬ id = id0 := fun e => hid e.symm
        simpa [hid, this] using ih'

/-- **reads see the transaction's own writes** -/
theorem reads_own_writes (s : St V) (hd : IdsDistinct s) (id : Bytes) (v : V) (cbs : List (Cb V)) (s' : St V) :
    (exec s id (.create v true) = (.ok, cbs, s') → (exec s' id .value).1 = .val v ∧ (exec s' id .exists_).1 = .bool true) ∧
    (exec s id (.update v true) = (.ok, cbs, s') → (exec s' id .value).1 = .val v) ∧
    (exec s id .delete = (.ok, cbs, s') → (exec s' id .value).1 = .err .notFound ∧ (exec s' id .exists_).1 = .bool false) := by
  have _ := hd
  refine ⟨?_, ?_, ?_⟩ <;> intro h <;> simp only [exec] at h <;> (repeat' split at h) <;>
    simp only [Prod.mk.injEq, reduceCtorEq, false_and, true_and] at h <;>
    obtain ⟨_, rfl⟩ := h <;> simp [exec, vget_vset, vget_vdel]


/-! ## the per-id lock

`Read`/`Write` take the id's read/write lock until `Close`. -/

open GoRes.Lock in
/-- **while a transaction on an id is open no write transaction on that id makes progress** -/
theorem write_excluded_while_open (l : L) (h : isOpen l = true) : step l .lock = none := by
  simp only [isOpen] at h
  simp [step, h]

open GoRes.Lock in
/-- a writer and readers never hold the lock together, in any reachable state -/
theorem writer_alone (acts : List Act) (l : L) (h : Lock.run {} acts = some l) : l.writer = true → l.readers = 0 := by
  have gen : ∀ (acts : List Act) (l0 l : L), (l0.writer = true → l0.readers = 0) → Lock.run l0 acts = some l →
      (l.writer = true → l.readers = 0) := by
    intro acts
    induction acts with
    | nil => intro l0 l h0 hr; simp [Lock.run] at hr; subst hr; exact h0
    | cons a as ih =>
      intro l0 l h0 hr
      simp only [Lock.run] at hr
      cases hs : step l0 a with
      | none => simp [hs] at hr
      | some l1 =>
        simp only [hs] at hr
        refine ih l1 l ?_ hr
        cases a <;> simp only [step] at hs <;> split at hs <;> simp at hs <;> subst hs <;> simp_all
  exact gen acts {} l (by simp) h

open GoRes.Lock in
/-- what the correspondence run observes (`excl`): a contender on the id of an open transaction
is granted only if both are readers; on badgerstore other ids are never affected -/
theorem grants (heldWrite contWrite : Bool) :
    grantedBadger heldWrite contWrite true = (!heldWrite && !contWrite) ∧
    grantedBadger heldWrite contWrite false = true ∧
    (grantedBadger heldWrite contWrite true =
      (match step (if heldWrite then { writer := true } else { readers := 1 }) (if contWrite then .lock else .rlock) with
       | some _ => true | none => false)) := by
  cases heldWrite <;> cases contWrite <;> simp [grantedBadger, step]

example : GoRes.Lock.run {} [.rlock, .rlock, .runlock, .runlock, .lock, .unlock] = some {} := by decide
example : GoRes.Lock.run {} [.rlock, .lock] = none := by decide

end GoRes.Props.C11
