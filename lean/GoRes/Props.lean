import GoRes.Props.C17
