import GoRes.Model.Pool
import GoRes.Model.Basic
import GoRes.Driver.Wire
/-! Driver for the `pool` domain (C01, C02, C03, C16): *trace validation*.

The harness records, from the instrumented (`-tags verif`) service, one line per note
(`n GOID POINT WID N`, in the global order given by an atomic sequence counter; notes made
while holding the service mutex are ordered by it).  The driver

* replays the trace through `Pool.step` (model column: `ok`, or `reject:<why>` when the
  observed step is not enabled in the model or its observable outcome differs), and
* judges the trace directly against the properties, independently of the model (spec
  column): mutual exclusion per group, FIFO and exactly-once per group in enqueue order,
  nothing dropped at a quiescent end, drained at the end of `Shutdown`, nothing started
  after it. -/
namespace GoRes.Driver.Pool
open GoRes GoRes.Wire GoRes.Pool

def aget {β} (l : List (Nat × β)) (k : Nat) : Option β := (l.find? (·.1 == k)).map (·.2)
def aset {β} (l : List (Nat × β)) (k : Nat) (v : β) : List (Nat × β) :=
  if l.any (·.1 == k) then l.map (fun e => if e.1 == k then (k, v) else e) else l ++ [(k, v)]
def adel {β} (l : List (Nat × β)) (k : Nat) : List (Nat × β) := l.filter (·.1 != k)

structure VSt where
  m : St := {}
  rejected : Option String := none
  wids : List (Str × Nat) := [([], 0)]
  workerOf : List (Nat × Nat) := []         -- goid ↦ worker index
  nextWorker : Nat := 0
  cur : List (Nat × Nat) := []              -- goid ↦ callback id of its current submission
  widOfCb : List (Nat × Nat) := []          -- callback id ↦ group id (as stated by the harness at submission)
  expect : List (Nat × Nat) := []           -- worker goid ↦ callback the model says it starts next
  -- specification side (never looks at `m`)
  sRunning : List (Nat × Nat) := []         -- (group, cb) running now
  sQueue : List (Nat × List Nat) := []      -- group ↦ accepted, not yet started (enqueue order)
  sStarted : List Nat := []
  sDroppable : List Nat := []               -- query requests: dropped without reaching user code when they arrive after the expiry
  sShutdownBegun : Bool := false
  sStopped : Bool := false
  sCycleOpen : Bool := false                -- "sv.init" seen, "sv.starting" of the same cycle not yet
  forcedWakes : Nat := 0
  steps : Nat := 0

def num (s : Str) : Nat := (Str.show s).toNat!

def intern (v : VSt) (w : Str) : VSt × Nat :=
  match v.wids.find? (·.1 == w) with
  | some (_, i) => (v, i)
  | none => let i := v.wids.length; ({ v with wids := v.wids ++ [(w, i)] }, i)

def reject (v : VSt) (why : String) : VSt := if v.rejected.isSome then v else { v with rejected := some why }

/-- apply a model action; reject when it is not enabled -/
def apply (v : VSt) (a : Act) : VSt :=
  if v.rejected.isSome then v else
  match step v.m a with
  | some m' => { v with m := m', steps := v.steps + 1 }
  | none => reject v s!"action-not-enabled:{repr a}"

def workerIdx (v : VSt) (goid : Nat) : Option Nat := aget v.workerOf goid

def wstate (v : VSt) (i : Nat) : Option WState := v.m.workers[i]?

/-- model-side handling of one note -/
def modelNote (v : VSt) (goid : Nat) (point : String) (wid : Nat) (n : Nat) : VSt :=
  match point with
  -- the queue state is re-initialised at "sv.init" (a note made where serve resets it, under the
  -- mutex); "sv.starting" (before the workers are started) only starts the cycle for traces without it
  | "sv.init" => apply v (.serve n)
  | "sv.starting" => if v.m.phase = .started ∧ v.m.workers.all (· = .idle) then v else apply v (.serve n)
  | "sv.started" => v
  | "h.submit" => { v with cur := aset v.cur goid n, widOfCb := aset v.widOfCb n wid }
  | "s.request" | "s.qrequest" | "s.qexpire" => { v with cur := aset v.cur goid n, widOfCb := aset v.widOfCb n wid }
  | "s.refused" => v
  | "s.checked" =>
    match aget v.cur goid with
    | some cb => apply v (.subCheck goid wid cb true)
    | none => reject v "checked-without-submission"
  | "s.refused.closed" =>
    let v' := apply v (.subLock goid)
    if v'.m.wq.isSome then reject v' "refused-as-closed-but-queue-open-in-model" else v'
  | "s.enq.new" =>
    let v' := apply v (.subLock goid)
    if v'.rejected.isSome then v' else
    if v.m.wq.isNone then reject v' "impl-enqueued-work-after-the-queue-was-closed"
    else if !(v'.m.inflight.any (fun e => e.tid = goid ∧ e.needSignal)) then reject v' "model-appended-but-impl-created-new-work"
    else if (v'.m.wq.getD []).length ≠ n then reject v' s!"workqueue-length:{(v'.m.wq.getD []).length}≠{n}"
    else v'
  | "s.enq.app" =>
    let v' := apply v (.subLock goid)
    if v'.rejected.isSome then v' else
    if v'.m.inflight.any (fun e => e.tid = goid) then reject v' "model-created-new-work-but-impl-appended" else v'
  | "s.sigbegin" => v
  | "s.sigend" => apply v (.subSignal goid)
  | "w.start" =>
    let i := v.nextWorker
    apply { v with workerOf := aset v.workerOf goid i, nextWorker := i + 1 } (.wStart i)
  | "w.woke" =>
    match workerIdx v goid with
    | none => reject v "woke-unknown-worker"
    | some i => match wstate v i with
      | some (.waiting true) => apply v (.wWake i)
      | some (.waiting false) => apply { v with forcedWakes := v.forcedWakes + 1 } (.wSpurious i)
      | _ => reject v "woke-but-not-waiting-in-model"
  | "w.relock" =>
    match workerIdx v goid with
    | none => reject v "relock-unknown-worker"
    | some i => apply v (.wDone i)
  | "w.wait" =>
    match workerIdx v goid with
    | some i => (match wstate v i with
      | some (.waiting _) => v
      | _ => reject v "impl-waits-but-model-does-not")
    | none => reject v "wait-unknown-worker"
  | "w.exit" =>
    match workerIdx v goid with
    | some i => (match wstate v i with
      | some .exited => v
      | _ => reject v "impl-worker-exits-but-model-does-not")
    | none => reject v "exit-unknown-worker"
  | "w.pop" => v
  | "w.retire" => if n ≠ 0 then reject v s!"work-retired-with-{n}-pending-callbacks" else v
  | "w.run" =>
    match workerIdx v goid with
    | some i => (match wstate v i with
      | some (.running w cb) =>
        if w.wid ≠ wid then reject v s!"impl-runs-group-{wid}-model-{w.wid}" else { v with expect := aset v.expect goid cb }
      | _ => reject v "impl-runs-callback-but-model-does-not")
    | none => reject v "run-unknown-worker"
  | "h.cbstart" =>
    match aget v.expect goid with
    | some cb => if cb = n then { v with expect := adel v.expect goid } else reject v s!"model-expected-callback-{cb}-impl-started-{n}"
    | none => reject v s!"callback-{n}-started-unexpectedly"
  | "h.cbend" => v
  | "c.close" =>
    let v := if v.m.phase = .started then apply v .shutdownCas else v
    apply v .closeLock
  | "c.broadcast" => apply v .closeBroadcast
  | "sd.waited" => apply { v with workerOf := [], nextWorker := 0 } .shutdownDone
  | _ => v

/-- specification-side judgement of one note (independent of the model) -/
def specNote (v : VSt) (goid : Nat) (point : String) (wid : Nat) (n : Nat) : VSt × String :=
  match point with
  | "s.enq.new" | "s.enq.app" =>
    match aget v.cur goid with
    | some cb =>
      let g := (aget v.widOfCb cb).getD wid
      ({ v with sQueue := aset v.sQueue g ((aget v.sQueue g).getD [] ++ [cb]) }, "?ok")
    | none => (v, "?ok")
  | "s.qrequest" => ({ v with sDroppable := n :: v.sDroppable }, "?ok")
  | "h.cbstart" =>
    let g := (aget v.widOfCb n).getD 0
    -- late query requests ahead of this callback never reach user code: skip them
    let v := if g ≠ 0 then
        { v with sQueue := aset v.sQueue g (((aget v.sQueue g).getD []).dropWhile (fun h => h ≠ n ∧ v.sDroppable.contains h)) }
      else v
    -- whatever the verdict, the callback is running from now on (later overlaps must still be seen)
    let vr := { v with sRunning := v.sRunning ++ [(g, n)], sStarted := v.sStarted ++ [n] }
    if v.sStopped then (vr, s!"?viol:callback-{n}-started-after-shutdown-returned")
    else if v.sStarted.contains n then (vr, s!"?viol:callback-{n}-started-twice")
    else if g ≠ 0 ∧ v.sRunning.any (·.1 = g) then (vr, s!"?viol:two-callbacks-of-group-{g}-running")
    else
      let q := (aget v.sQueue g).getD []
      if g ≠ 0 then
        match q with
        | h :: t =>
          if h = n then ({ vr with sQueue := aset v.sQueue g t }, "?ok")
          else (vr, s!"?viol:group-{g}-started-callback-{n}-before-{h}")
        | [] => (vr, s!"?viol:callback-{n}-started-but-never-accepted")
      else
        if q.contains n then ({ vr with sQueue := aset v.sQueue g (q.erase n) }, "?ok")
        else (vr, s!"?viol:callback-{n}-started-but-never-accepted")
  | "h.cbend" => ({ v with sRunning := v.sRunning.filter (·.2 ≠ n) }, "?ok")
  | "h.shutdown.begin" => ({ v with sShutdownBegun := true }, "?ok")
  | "h.shutdown.end" =>
    if !v.sRunning.isEmpty then ({ v with sStopped := true }, "?viol:shutdown-returned-while-callbacks-running")
    else ({ v with sStopped := true }, "?ok")
  | "h.shutdown.hung" => (v, "?viol:shutdown-did-not-return")
  | "h.serve.hung" => (v, "?viol:serve-did-not-return")
  | "h.serve.early" => (v, "?viol:serve-returned-while-a-callback-was-still-running-shutdown-not-drained")
  | "h.serve2.accepted" => (v, "?viol:second-serve-on-a-running-service-was-not-refused")
  | "h.serve.refused.stopped" => (v, "?viol:serve-refused-although-the-previous-serve-had-returned-with-an-error-before-starting")
  | "h.refused.running" => (v, "?viol:callback-submitted-to-a-running-service-never-ran")
  | "h.shutdown.refused" => (v, "?viol:shutdown-refused-on-a-running-service")
  | "h.panic" => (v, "?viol:api-call-panicked")
  | "h.serve.panic" => (v, "?viol:serve-panicked-while-shutdown-ran-concurrently")
  | "h.connclosed" => if n = 1 then (v, "?ok") else (v, s!"?viol:connection-closed-{n}-times")
  | "sv.init" | "sv.starting" =>
    -- a new cycle; callbacks of the previous cycle that are still running stay on record (a service
    -- that lets itself be served again before they ended breaks C03, and C01 if one of their groups runs again).
    -- The cycle starts where serve re-initialises the queue ("sv.init"); what is accepted from then on counts.
    if point = "sv.starting" ∧ v.sCycleOpen then ({ v with sCycleOpen := false }, "?ok") else
    ({ v with sStopped := false, sShutdownBegun := false, sQueue := [], sCycleOpen := point = "sv.init" },
      if v.sRunning.isEmpty then "?ok" else "?viol:serve-accepted-while-callbacks-of-the-previous-cycle-run-shutdown-not-complete")
  | "h.quiescent" =>
    -- the harness has waited for everything it submitted: nothing may be left behind
    if v.sShutdownBegun then (v, "?ok")
    else match (v.sQueue.map (fun e => (e.1, e.2.filter (fun c => !v.sDroppable.contains c)))).find? (fun e => !e.2.isEmpty) with
      | some (g, q) => (v, s!"?viol:group-{g}-callbacks-{q}-accepted-but-never-started")
      | none => (v, "?ok")
  | _ => (v, "?ok")

/-- which property a specification verdict belongs to -/
def verdictFor (mode spec : String) (restarted : Bool) : String :=
  if spec = "?ok" then spec else
  let has (w : String) : Bool := (spec.splitOn w).length > 1
  let c01 := has "two-callbacks-of-group"
  let c02 := has "started-twice" || has "-before-" || has "never-accepted" || has "never-started"
  let c03 := has "shutdown" || has "serve-did-not-return" || has "panicked" || has "connection-closed" || has "second-serve" || has "never-ran" || has "serve-refused"
  match mode with
  | "pool01" => if c01 then spec else "?ok"
  | "pool02" => if c02 then spec else "?ok"
  | "pool03" => if c03 ∨ (restarted ∧ (c01 ∨ c02)) then spec else "?ok"   -- after a restart all guarantees must hold again
  | _ => spec

def run (mode : String) (v : VSt) (args : List Str) : VSt × String × String × String :=
  match args with
  | [c] => if c = str "reset" then ({}, "ok", "-", "triv-reset") else (v, "bad-op", "-", "bad")
  | [c, goid, point, wid, n] =>
    if c ≠ str "n" then (v, "bad-op", "-", "bad") else
    let pt := Str.show point
    let (v, g) := intern v wid
    let (v, spec) := specNote v (num goid) pt g (num n)
    let was := v.rejected
    let v := modelNote v (num goid) pt g (num n)
    -- executable double check of the theorem on the states the trace drives the model through
    let v := if v.rejected.isNone ∧ !mutexOk v.m then reject v "model-state-violates-mutual-exclusion" else v
    let mcol := match v.rejected with
      | none => "ok"
      | some why => if was.isSome then "skip" else "reject:" ++ why
    (v, mcol, verdictFor mode spec (v.m.epoch > 1), pt)
  | _ => (v, "bad-op", "-", "bad")

end GoRes.Driver.Pool
