import GoRes.Model.Mux
import GoRes.Model.MuxSpec
import GoRes.Driver.Wire
import GoRes.Driver.Pat
/-! Driver commands for the `mux` domain (C06). -/
namespace GoRes.Driver.Mux
open GoRes GoRes.Wire GoRes.Mux

structure St where
  w : World := World.empty
  s : MuxSpec.SState := {}
  next : Nat := 0
  listenTried : Bool := false

def num (s : Str) : Nat := (Str.show s).toNat!

def encLookup : Lookup → String
  | .nil => "nil"
  | .panic => "panic"
  | .found m => s!"h={m.id} ls={m.listeners} params={GoRes.Driver.Pat.encMap (some m.params)} group={encField m.group}"

def encSpec : Option MuxSpec.SMatch → String
  | none => "nil"
  | some m => match m.group with
    | none => "panic"
    | some g => s!"h={m.id} ls={m.listeners} params={GoRes.Driver.Pat.encMap (some m.params)} group={encField g}"

def regOut : Except RegErr Unit → String
  | .ok _ => "ok"
  | .error _ => "panic"

def specHandle (s : MuxSpec.SState) (m : Nat) (p : Str) (group : Str) (parallel : Bool) : String :=
  let toks := MuxSpec.toksOf p
  let patOK := match Pattern.parse p with
    | some ts => Pattern.distinctTags ts
    | none => false
  let groupOK := parallel || group.isEmpty ||
    (match MuxSpec.parseTemplate (group.length + 1) group with
     | some pieces => pieces.all (fun pc => match pc with
        | .lit _ => true
        | .tag t => toks.contains (Ch.dollar :: t))
     | none => false)
  let fuel := s.muxes.length + 1
  let (top, pos) := s.absPos fuel m
  let here := MuxSpec.shape (pos ++ toks)
  let sameNode := s.regs.filter fun r =>
    let (rtop, rpos) := s.absPos fuel r.mux
    rtop = top && MuxSpec.shape (rpos ++ r.toks) = here
  if !patOK || !groupOK then "panic"
  else if sameNode.any (·.kind = .handler) then "panic"
  else if sameNode.isEmpty then "ok"
  else "-"

def run.handle (st : St) (m : Nat) (p gk : Str) (rest : List Str) : St × String × String × String :=
  let id := st.next
  let parallel := gk = str "parallel"
  let group : Str := if gk = str "group" then rest.headD [] else []
  match st.w.withRoot m (fun root => addHandlerAt root p id group parallel) with
  | none => ({ st with next := id + 1 }, "panic", "-", "nomux")
  | some (w, r) =>
    let s := match r with
      | .ok _ => { st.s with regs := st.s.regs ++ [⟨.handler, m, MuxSpec.toksOf p, id, group, parallel⟩] }
      | .error _ => st.s
    ({ st with w := w, s := s, next := id + 1 }, regOut r, specHandle st.s m p group parallel, "handle-" ++ regOut r)

/-- bytewise lexicographic order (Go's `sort.Strings`) -/
def strLe : Str → Str → Bool
  | [], _ => true
  | _ :: _, [] => false
  | a :: as, b :: bs => if a < b then true else if a > b then false else strLe as bs

def run (st : St) (args : List Str) : St × String × String × String :=
  let bad := (st, "bad-op", "-", "bad")
  match args with
  | [c] =>
    if c = str "reset" then ({}, "ok", "-", "triv-reset")
    else if c = str "onreg" then
      -- mux 0 is mounted at "top" on a service "svc": every handler below it hears its full pattern —
      -- service name, mount path, the paths and mount points on the way down, and its own pattern with the
      -- tag names it was registered with (specification side only: registrations and the mount relation)
      (match st.s.mux? 0 with
      | none => (st, "nomux", "-", "nomux")
      | some m0 =>
        if m0.parent.isSome then (st, "panic", "panic", "onreg-mounted")
        else
          let pre := MuxSpec.mergeP (str "svc") (MuxSpec.mergeP (str "top") m0.path)
          let pats := (st.s.candidates 0 .handler).map fun c => MuxSpec.mergeP pre (joinDots c.rel)
          let rec ins (x : Str) : List Str → List Str
            | [] => [x]
            | y :: r => if strLe x y then x :: y :: r else y :: ins x r
          let sortL (l : List Str) : List Str := l.foldl (fun acc x => ins x acc) []
          let norm (p : Str) : Str := joinDots ((splitDots p).map fun t => match t with
            | c :: _ :: _ => if c = Ch.dollar then [Ch.star] else t
            | _ => t)
          let sorted := sortL pats
          let listened := st.s.regs.any (·.kind = .listener) || st.listenTried
          let o := "norm=" ++ encList (sortL (pats.map norm)) ++ " exact=" ++ (if listened then "-" else encList sorted)
          (st, o, o, if sorted.isEmpty then "onreg-none" else "onreg"))
    else bad
  | [c, m, a] =>
    let m := num m
    if c = str "new" then
      let (w, r) := st.w.newMux m a
      let s := match r with
        | .ok _ => { st.s with muxes := st.s.muxes ++ [⟨m, a, none⟩] }
        | .error _ => st.s
      ({ st with w := w, s := s }, regOut r, encBool (Pattern.isValidPath a) |>.replace "T" "ok" |>.replace "F" "panic", "new-" ++ regOut r)
    else if c = str "listen" then
      let id := st.next
      match st.w.withRoot m (fun root => addListenerAt root a id) with
      | none => ({ st with next := id + 1, listenTried := true }, "panic", "-", "nomux")
      | some (w, r) =>
        let st := { st with listenTried := true }
        let s := match r with
          | .ok _ => { st.s with regs := st.s.regs ++ [⟨.listener, m, MuxSpec.toksOf a, id, [], false⟩] }
          | .error _ => st.s
        -- specification (C17): registration accepts only patterns of the one grammar
        let spec := match Pattern.parse a with
          | none => "panic"
          | some ts => if Pattern.distinctTags ts then "-" else "panic"
        ({ st with w := w, s := s, next := id + 1 }, regOut r, spec, "listen-" ++ regOut r)
    else if c = str "get" then
      match st.w.rootOf m with
      | none => (st, "panic", "-", "nomux")
      | some (mi, _, root) =>
        let r := getHandler mi.path root a
        let spec := st.s.lookup m a
        let specS := match st.s.mux? m with
          | none => "-"
          | some mx => if st.s.hasOrphan m then "-" else match MuxSpec.stripPath mx.path a with
            | none => "nil"
            | some sub => match MuxSpec.best (st.s.candidates m .handler) (MuxSpec.toksOf sub) with
              | none => "nil"
              | some c => if st.s.mixedNaming m c then "-" else encSpec spec
        let tag := match r with
          | .nil => "get-nil"
          | .panic => "get-panic"
          | .found f => "get-found" ++ (if f.params.isEmpty then "" else "-params") ++ (if f.listeners.isEmpty then "" else "-ls")
        (st, encLookup r, specS, tag)
    else bad
  | [c, m] =>
    let m := num m
    if c = str "validate" then
      match st.w.rootOf m with
      | none => (st, "panic", "-", "nomux")
      | some (_, _, root) =>
        let b := hasOrphanListener 64 root
        (st, if b then "err" else "ok", "-", if b then "validate-err" else "validate-ok")
    else if c = str "fullpath" then
      if (st.w.rootOf m).isNone then (st, "panic", "-", "nomux") else
      (st, encField (st.w.fullPath 64 m), "-", "fullpath")
    else bad
  | [c, p, path, ch] =>
    if c = str "handle" then
      run.handle st (num p) path ch []
    else if c = str "mount" then
      let (w, r) := st.w.mount (num p) path (num ch)
      let s := match r with
        | .ok _ => { st.s with muxes := st.s.muxes.map fun mx => if mx.id = num ch then { mx with parent := some (num p, path) } else mx }
        | .error _ => st.s
      ({ st with w := w, s := s }, regOut r, "-", "mount-" ++ regOut r)
    else bad
  | c :: m :: p :: gk :: rest =>
    if c = str "handle" then run.handle st (num m) p gk rest else bad
  | _ => bad

end GoRes.Driver.Mux
