import GoRes.Model.Codec
import GoRes.Driver.Wire
/-! Driver for the `codec` domain (C18). -/
namespace GoRes.Driver.Codec
open GoRes GoRes.Wire GoRes.Codec GoRes.Json

def typName : VType → String
  | .primitive => "primitive" | .reference => "reference" | .softReference => "softref" | .data => "data" | .delete => "delete"

def encValue : Option Value → String
  | none => "err"
  | some v => typName v.typ ++ "|" ++ encField v.rid ++ "|" ++ encField (match v.typ with | .data => v.inner | .primitive => v.raw | _ => [])

def encResp : Resp → String
  | .error c => "error:" ++ encField c
  | .resource r => "resource:" ++ encField r
  | .result raw => "result:" ++ encField raw

/-- the protocol's definition of a value, written outright (specification) -/
def specClassify (j : J) : Option String :=
  -- `none` = the protocol text does not decide (null-valued or duplicated reserved members)
  match j with
  | .arr _ => some "err"
  | .obj ms =>
    let keys := ms.map (·.1)
    let reserved := [b!"rid", b!"soft", b!"action", b!"data"]
    if reserved.any (fun k => (keys.filter (· = k)).length > 1) then none
    else if ms.any (fun m => reserved.contains m.1 && m.1 != b!"data" && (match m.2 with | .null => true | _ => false)) then none
    else
      let has (k : Str) := keys.contains k
      if has b!"rid" then
        match member ms b!"rid", member ms b!"soft" with
        | some (.str r), soft =>
          let softOk := match soft with | none => some false | some (.bool b) => some b | _ => none
          (match softOk with
           | none => some "err"
           | some sf =>
             if has b!"action" ∨ has b!"data" ∨ !isValidRIDB r then some "err"
             else some ((if sf then "softref" else "reference") ++ "|" ++ encField r ++ "|" ++ encField []))
        | _, _ => some "err"
      else if has b!"action" then
        (match member ms b!"action" with
         | some (.str a) => if a == b!"delete" && !has b!"data" && (match member ms b!"soft" with | none | some (.bool _) => true | _ => false) then some ("delete|" ++ encField [] ++ "|" ++ encField []) else some "err"
         | _ => some "err")
      else if has b!"data" then
        (match member ms b!"soft" with
         | none | some (.bool _) =>
           (match member ms b!"data" with
            | some (.obj x) => some ("data|" ++ encField [] ++ "|" ++ encField (render (.obj x)))
            | some (.arr x) => some ("data|" ++ encField [] ++ "|" ++ encField (render (.arr x)))
            | some d => some ("primitive|" ++ encField [] ++ "|" ++ encField (render d))
            | none => some "err")
         | _ => some "err")
      else some "err"
  | x => some ("primitive|" ++ encField [] ++ "|" ++ encField (render x))

def run (args : List Str) : String × String × String :=
  let bad := ("bad-op", "-", "bad")
  match args with
  | [c, a, enc] =>
    if c = str "ref" then
      let m := marshalRef enc
      (encField m ++ " rt=T", encField (b!"{\"rid\":" ++ enc ++ [125]) ++ " rt=T", if a.isEmpty then "ref-empty" else "ref")
    else if c = str "softref" then
      let m := marshalSoftRef enc
      (encField m ++ " rt=T", encField (b!"{\"rid\":" ++ enc ++ b!",\"soft\":true}") ++ " rt=T", "softref")
    else if c = str "eq" then
      match (parse a).bind classify, (parse enc).bind classify with
      | some v, some w =>
        let e := equal v w
        -- specification: equal values mean the same thing; the same text is always equal to itself
        -- (`equal_sound`, contrapositive: values that mean different things are never equal)
        let sp := if a = enc then "T" else if meaning v ≠ meaning w then "F" else if e then "T" else "-"
        (encBool e, sp, if e then "eq-true" else "eq-false")
      | _, _ => ("err", "-", "eq-err")
    else bad
  | [c, t] =>
    if c = str "mdv" then
      match parse t with
      | none => ("err", "-", "mdv-err")
      | some j =>
        let out := marshalDataValueJ j
        let back := (parse out).bind unmarshalDataValue
        let b := match back with | some x => encField (render x) | none => "err"
        (encField out ++ "|" ++ b, encField (if j.isObj || j.isArr then b!"{\"data\":" ++ render j ++ [125] else render j) ++ "|" ++ encField (render j),
          if j.isObj || j.isArr then "mdv-wrapped" else "mdv-plain")
    else if c = str "dv" then
      -- `res.DataValue[T]{v}` for the static type T the harness chose: always the wrapper object, and
      -- `UnmarshalDataValue` gets the value back — also for empty slices, maps and strings, zero and false
      match parse t with
      | none => ("err", "-", "dv-err")
      | some j =>
        let out := b!"{\"data\":" ++ render j ++ [125]
        let back := (parse out).bind unmarshalDataValue
        let b := match back with | some x => encField (render x) | none => "err"
        let o := encField out ++ "|" ++ b
        (o, encField out ++ "|" ++ encField (render j), "dv")
    else if c = str "udv" then
      let m := match parse t with
        | none => "err"
        | some j => match unmarshalDataValue j with | some x => "ok:" ++ encField (render x) | none => "err"
      -- the protocol defines it outright: an object is a data value wrapper (its `data` member), a bare
      -- array is not a value, anything else is itself — whatever whitespace surrounds the text
      (m, m, if m = "err" then "udv-err" else "udv-ok")
    else if c = str "val" then
      match parse t with
      | none => ("err", "err", "val-notjson")
      | some j =>
        let m := encValue (classify j)
        (m, (specClassify j).getD "-", "val-" ++ (match classify j with | some v => typName v.typ | none => "invalid"))
    else if c = str "resp" then
      let j := if t.isEmpty then none else parse t
      let r := parseResponse j
      -- specification: exactly one of result / resource / error
      let n := [hasError r, hasResource r, hasResult r].count true
      (encResp r, if n = 1 then "-" else "?viol:not-exactly-one-class", "resp-" ++ (match r with | .error _ => "error" | .resource _ => "resource" | .result _ => "result"))
    else bad
  | [c, kind, a, b] =>
    -- a response as the service publishes it (shapes of Model/Req): the client must classify it as that shape
    if c = str "svc" || c = str "svcm" then
      -- svcm: the same response with the meta member a service adds for an HTTP request whose
      -- handler set a status or a header (request.go: `Meta *meta "json:meta,omitempty"`)
      let tail : Str := if c = str "svcm" then b!",\"meta\":{\"status\":404,\"header\":{\"X-A\":[\"1\"]}}}" else [125]
      let text : Str :=
        if kind = str "result" then b!"{\"result\":" ++ a ++ tail
        else if kind = str "resource" then b!"{\"resource\":{\"rid\":\"" ++ a ++ b!"\"}" ++ tail
        else b!"{\"error\":{\"code\":\"" ++ a ++ b!"\",\"message\":\"" ++ b ++ b!"\"}" ++ tail
      let r := parseResponse (parse text)
      let want := if kind = str "result" then Resp.result ((parse a).map render |>.getD a)
        else if kind = str "resource" then .resource a else .error a
      (encResp r, encResp want, Str.show c ++ "-" ++ Str.show kind)
    else bad
  | _ => bad

end GoRes.Driver.Codec
