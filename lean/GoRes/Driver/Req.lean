import GoRes.Model.Req
import GoRes.Model.Mux
import GoRes.Model.Json
import GoRes.Driver.Wire
/-! Driver commands for the `req` domain (C04, C05, C07, C08): one request against one
registered handler whose behaviour is a script. The model predicts the full effect log;
the specification column judges the implementation's log for the selected property. -/
namespace GoRes.Driver.Req
open GoRes GoRes.Wire GoRes.Req

def num (s : Str) : Nat := (Str.show s).toNat!
def int (s : Str) : Int := (Str.show s).toInt!

def splitOn (c : Nat) (s : Str) : List Str :=
  let rec go : Str → Str → List Str
    | [], cur => [cur.reverse]
    | x :: r, cur => if x = c then cur.reverse :: go r [] else go r (x :: cur)
  go s []

def decS (s : Str) : Str := (decField (Str.show s)).getD []

def parseJV (s : Str) : JV :=
  match s with
  | 85 :: _ => ⟨false, []⟩          -- U
  | 74 :: r => ⟨true, decS r⟩       -- J<enc>
  | _ => ⟨true, []⟩

def optJV (s : Str) : Option JV := if s = [45] then none else some (parseJV s)

def parseErrV : List Str → Option ErrV
  | [k, c, m] =>
    if k = [82] then some (.res (decS c) (decS m))
    else if k = [87] then some (.go (str "wrap: " ++ decS m))   -- W: an ordinary error wrapping a *res.Error
    else none
  | [k, m] => if k = [71] then some (.go (decS m)) else none
  | [k] => if k = [85] then some .resBad else none               -- U: *res.Error with unmarshalable Data
  | _ => none

def parseProps : List Str → List (Str × JV)
  | k :: v :: r => (decS k, parseJV v) :: parseProps r
  | _ => []

def parseAction (f : Str) : Option Action :=
  match splitOn 58 f with
  | [] => none
  | name :: args =>
    let n := Str.show name
    match n, args with
    | "ok", [v] => some (.ok (optJV v))
    | "resource", [rid] => some (.resource (decS rid))
    -- `Error(nil)`: `ToError(nil)` dereferences the nil error; the handler panics with that runtime
    -- error and the request is answered like any other panic with an `error` value
    | "error", [[78]] => some (.panic (.err (.go (str "runtime error: invalid memory address or nil pointer dereference"))))
    | "error", a => (parseErrV a).map .error
    | "notFound", [] => some .notFound
    | "methodNotFound", [] => some .methodNotFound
    | "invalidParams", [m] => some (.invalidParams (decS m))
    | "invalidQuery", [m] => some (.invalidQuery (decS m))
    | "access", [g, c] => some (.access (g = [84]) (decS c))
    | "accessDenied", [] => some .accessDenied
    | "accessGranted", [] => some .accessGranted
    | "model", [v, qy] => some (.model (parseJV v) (decS qy))
    | "collection", [v, qy] => some (.collection (parseJV v) (decS qy))
    | "new", [rid] => some (.new (decS rid))
    | "timeout", [ms] => some (.timeout (int ms))
    -- microseconds: Go's `int64(d/time.Millisecond)` truncates towards zero; a negative duration panics
    | "timeoutus", [us] => some (.timeout (if int us < 0 then -1 else (int us) / 1000))
    | "change", props => some (.change (parseProps props))
    | "add", [v, i] => some (.add (parseJV v) (int i))
    | "remove", [i] => some (.remove (int i))
    | "create", [v] => some (.create (parseJV v))
    | "delete", [] => some .delete
    | "custom", [nm, v] => some (.custom (decS nm) (optJV v))
    | "reaccess", [] => some .reaccess
    | "token", [v] => some (.tokenEvent (optJV v))
    | "status", [c] => some (.setStatus (int c))
    | "header", [k, v] => some (.header (decS k) (decS v))
    | "parse", [b] => some (.parseParams (b = [84]))
    | "panic", k :: rest =>
      if k = [82] ∨ k = [71] ∨ k = [87] ∨ k = [85] then (parseErrV (k :: rest)).map (fun e => .panic (.err e))
      else match rest with
        | [m] => if k = [83] then some (.panic (.str (decS m))) else if k = [79] then some (.panic (.other (decS m))) else none
        | _ => none
    | _, _ => none

def parseApply (c : Nat) : Apply :=
  -- b: an error together with a value (a revert map after a partial apply); n: ErrNotFound - errors both
  if c = 111 then .ok else if c = 101 || c = 98 || c = 110 then .err else if c = 122 then .okEmpty else .absent

def encEff : Eff → String
  | .pub s p => "P@" ++ encField s ++ "@" ++ encField p
  | .apply k => "A@" ++ k
  | .listener i n => s!"L@{i}@" ++ encField n
  | .seen d => "S@" ++ encField d

def encLog (l : List Eff) : String := if l.isEmpty then "-" else ";".intercalate (l.map encEff)

def decLog (s : String) : Option (List Eff) :=
  if s = "-" then some [] else
  (s.splitOn ";").mapM fun (e : String) =>
    match e.splitOn "@" with
    | ["P", a, b] => do pure (.pub (← decField a) (← decField b))
    | ["A", k] => some (.apply k)
    | ["L", i, n] => do pure (.listener i.toNat! (← decField n))
    | ["S", d] => do pure (.seen (← decField d))
    | _ => none

structure Parsed where
  rin : ReqIn
  cfg : HCfg
  script : List Action
  subjOk : Bool

def commaList (s : Str) : List Str := if s = [45] then [] else (splitOn 44 s)

def parseReq (args : List Str) : Option Parsed :=
  match args with
  | subj :: pk :: cid :: http :: params :: token :: query :: pat :: kinds :: call :: auth :: typ :: apply :: ls :: acts =>
    match splitSubject subj with
    | none => none
    | some (t, rname, method) =>
      match rtypeOf t with
      | none => none
      | some rt =>
        let (tree, reg) := Mux.addHandlerAt Mux.Node.empty pat 0 [] false
        let lookup := match reg with
          | .ok _ => Mux.getHandler (str "svc") tree rname
          | .error _ => .nil
        let (found, ps) := match lookup with
          | .found m => (true, m.params)
          | _ => (false, [])
        let ap := fun (i : Nat) => parseApply (apply.getD i 45)
        let cfg : HCfg := {
          hasAccess := kinds.contains 97, hasGet := kinds.contains 103, hasNew := kinds.contains 110,
          call := commaList call, auth := commaList auth, typ := num typ,
          applyChange := ap 0, applyAdd := ap 1, applyRemove := ap 2, applyCreate := ap 3, applyDelete := ap 4,
          listeners := num ls,
          nfApply := (List.range 5).filter (fun i => apply.getD i 45 = 110) }
        let rin : ReqIn := {
          rtype := rt, rname := rname, method := method, found := found,
          params := (ps.toArray.qsort (fun a b => a.1 < b.1)).toList,
          payload := if pk.head? = some 101 then .empty else if pk.head? = some 98 then .bad else .ok,
          cid := cid, isHTTP := http = [84],
          rawParams := if params = [45] then none else some params,
          token := if token = [45] then none else some token,
          query := query }
        match acts.mapM parseAction with
        | none => none
        | some script => some ⟨rin, cfg, script, true⟩
  | _ => none

/-! ### specification judgements -/



def replies (log : List Eff) : List Str := Req.responses log
def repliesOld (log : List Eff) : List Str :=
  log.filterMap fun e => match e with
    | .pub s p => if s = replySubj ∧ !isPre p then some p else none
    | _ => none

/-- C04: exactly one response (none only for access without access handler) -/
def judge04 (p : Parsed) (log : List Eff) : String :=
  let n := (replies log).length
  let unanswered := p.rin.rtype = .access ∧ p.rin.found ∧ !p.cfg.hasAccess
  if unanswered then (if n ≤ 1 ∧ (n = 0 ∨ p.rin.payload = .bad) then "?ok" else s!"?viol:{n}-responses-to-access-without-handler")
  else if n = 1 then "?ok" else s!"?viol:{n}-responses"

def errOf (payload : Str) : Option (Str × Str) := do
  let j ← Json.parse payload
  let e ← j.get? "error"
  match e.get? "code", e.get? "message" with
  | some (.str c), some (.str m) => some (c, m)
  | _, _ => none

/-- C05: the right handler is invoked with unaltered data; nothing-invocable and outcome map -/
def judge05 (p : Parsed) (log : List Eff) : String :=
  let r := p.rin
  let expectKind : Option String :=   -- decision table, written outright
    if !r.found ∨ r.payload = .bad then none else
    match r.rtype with
    | .access => if p.cfg.hasAccess then some "access" else none
    | .get => if p.cfg.hasGet then some "get" else none
    | .call => if r.method = str "new" ∧ p.cfg.hasNew then some "new"
               else if p.cfg.call.contains r.method then some "call"
               else if p.cfg.call.contains [42] then some "call*" else none
    | .auth => if p.cfg.auth.contains r.method then some "auth"
               else if p.cfg.auth.contains [42] then some "auth*" else none
  let seen := log.filterMap fun e => match e with | .seen d => some d | _ => none
  let rep := (replies log).head?
  match expectKind with
  | none =>
    if !seen.isEmpty then "?viol:handler-invoked-but-none-applies" else
    let want : Option Str :=
      if !r.found then some Req.codeNotFound
      else if r.payload = .bad then some Req.codeInternal
      else match r.rtype with
        | .access => none
        | .get => some Req.codeNotFound
        | _ => some Req.codeMethodNotFound
    (match want, rep with
     | none, none => "?ok"
     | none, some _ => "?viol:access-answered-without-handler"
     | some c, some pl => if (errOf pl).map (·.1) = some c then "?ok" else "?viol:wrong-error-code"
     | some _, none => "?viol:no-response")
  | some kind =>
    let r' := if r.payload = .empty then { r with cid := [], isHTTP := false, rawParams := none, token := none, query := [] } else r
    if seen ≠ [encSeen kind r'] then "?viol:wrong-handler-or-altered-data"
    else match p.script.head?, rep with
      | none, some pl => if errOf pl = some (Req.codeInternal, str "Internal error: missing response") then "?ok" else "?viol:missing-response-not-internal-error"
      | some (.panic (.err (.res c m))), some pl
      | some (.error (.res c m)), some pl => if errOf pl = some (Req.esc c, Req.esc m) then "?ok" else "?viol:error-not-verbatim"
      | some (.panic _), some pl => if (errOf pl).map (·.1) = some Req.codeInternal then "?ok" else "?viol:panic-not-internal-error"
      | some (.access g c), some pl =>
        -- an access handler that grants something (get, or some call methods) is answered with that result
        if kind = "access" ∧ (g ∨ !c.isEmpty) ∧ (errOf pl).isSome then "?viol:granted-access-answered-with-an-error" else "?ok"
      | _, none => "?viol:no-response"
      | _, _ => "?ok"

def validToken (t : Str) : Bool := !t.isEmpty && t.all (fun c => c > 32 ∧ c ≠ 127 ∧ c ≠ 46 ∧ c ≠ 42 ∧ c ≠ 62)
def validSubj (s : Str) : Bool := !s.isEmpty && (splitDots s).all validToken

def onlyKeys (j : Json.J) (allowed : List String) : Bool := j.keys.all (fun k => allowed.any (fun a => str a = k))

def metaOk (m : Json.J) : Bool :=
  m.isObj && onlyKeys m ["status", "header"] &&
  (match m.get? "status" with | some (.num _) => true | none => true | _ => false) &&
  (match m.get? "header" with
   | some (.obj hs) => hs.all (fun h => match h.2 with | .arr vs => vs.all (·.isStr) | _ => false)
   | none => true | _ => false)

/-- C07: is one published message protocol-conformant? -/
def conformant (p : Parsed) (subj payload : Str) : Option String :=
  -- the request as the handler sees it: an empty payload leaves every field at its zero value
  let r := if p.rin.payload = .empty then { p.rin with cid := [], isHTTP := false } else p.rin
  if subj = replySubj then
    if isPre payload then
      -- timeout:"<digits>"
      let body := payload.drop 8
      if body.head? = some 34 ∧ body.getLast? = some 34 ∧ body.length > 2 ∧ (body.drop 1).dropLast.all (fun c => 48 ≤ c ∧ c ≤ 57) then none
      else some "malformed-pre-response"
    else match Json.parse payload with
      | none => some "response-not-json"
      | some j =>
        let kinds := ["result", "resource", "error"].filter (fun k => (j.get? k).isSome)
        if !j.isObj then some "response-not-object"
        else if kinds.length ≠ 1 then some "not-exactly-one-of-result-resource-error"
        else if !onlyKeys j ["result", "resource", "error", "meta"] then some "unknown-member"
        else if (j.get? "meta").isSome ∧ !(r.isHTTP ∧ r.payload = .ok) then some "meta-on-non-http-request"
        else if (match j.get? "meta" with | some m => !metaOk m | none => false) then some "malformed-meta"
        else match j.get? "error", j.get? "resource" with
          | some e, _ => (match e.get? "code", e.get? "message" with
              | some (.str c), some (.str _) => if c.isEmpty then some "empty-error-code" else none
              | _, _ => some "error-without-string-code-and-message")
          | _, some rs => (match rs.get? "rid" with | some (.str rid) => if isValidRIDB rid then none else some "invalid-rid" | _ => some "resource-without-rid")
          | _, _ => none
  else if (str "conn.").isPrefixOf subj ∧ !isValidPartB r.cid then none
  else if (str "conn.").isPrefixOf subj ∧ !isValidPartB r.cid then none
  else if !validSubj subj then some "invalid-subject"
  else
    let toks := splitDots subj
    match toks with
    | ev :: rest =>
      if ev = str "event" then
        let name := rest.getLastD []
        let rn := joinDots rest.dropLast
        if rn ≠ r.rname then some "event-on-other-resource"
        else if name = str "change" then
          (match (Json.parse payload).bind (·.get? "values") with | some (.obj _) => none | _ => some "change-without-values-object")
        else if name = str "add" then
          (match Json.parse payload with
           | some j => (match j.get? "idx", j.get? "value" with | some (.num _), some _ => none | _, _ => some "add-without-idx-value")
           | none => some "add-not-json")
        else if name = str "remove" then
          (match (Json.parse payload).bind (·.get? "idx") with | some (.num _) => none | _ => some "remove-without-idx")
        else if name = str "create" ∨ name = str "delete" ∨ name = str "reaccess" then
          (if payload.isEmpty then none else some "payload-on-payloadless-event")
        else if payload.isEmpty ∨ (Json.parse payload).isSome then none else some "custom-event-payload-not-json"
      else if ev = str "conn" then
        if !isValidPartB r.cid then none else   -- only protocol-conformant connection ids are in scope
        (match rest with
         | [_, t] => if t = str "token" then
             (match (Json.parse payload).bind (·.get? "token") with | some _ => none | none => some "token-event-without-token")
           else some "unknown-conn-subject"
         | _ => some "unknown-conn-subject")
      else if subj = str "system.reset" ∨ subj = str "system.tokenReset" then none
      else some "undocumented-subject"
    | [] => some "empty-subject"

def judge07 (p : Parsed) (log : List Eff) : String :=
  -- request subjects with an empty token cannot be delivered by NATS: only valid resource names are in scope
  if !isValidRIDB p.rin.rname then "-" else
  match log.findSome? (fun e => match e with
      | .pub s pl => (conformant p s pl).map (fun why => why ++ ":" ++ Str.show s)
      | _ => none) with
  | some why => "?viol:" ++ why
  | none => "?ok"

/-- C08: apply → publish → listeners, and nothing after a failed/empty apply -/
def judge08 (p : Parsed) (log : List Eff) : String :=
  -- event values that cannot be marshalled are outside the property (nothing is published, see DESIGN.md)
  if p.script.any (fun a => match a with
      | .change props => props.any (fun kv => !kv.2.ok)
      | .add v _ | .create v => !v.ok
      | .custom _ (some v) => !v.ok
      | _ => false) then "-" else
  let n := p.cfg.listeners
  let applyOf (k : String) : Apply := match k with
    | "change" => p.cfg.applyChange | "add" => p.cfg.applyAdd | "remove" => p.cfg.applyRemove
    | "create" => p.cfg.applyCreate | "delete" => p.cfg.applyDelete | _ => .absent
  let evName (s : Str) : Option Str :=
    let toks := splitDots s
    if toks.head? = some (str "event") ∧ toks.length ≥ 3 then toks.getLast? else none
  let rec go (fuel : Nat) (l : List Eff) (prevApply : Option String) : Option String :=
    match fuel, l with
    | 0, _ => none
    | _, [] => none
    | fuel + 1, .apply k :: rest =>
      (match applyOf k with
       | .absent => some ("apply-handler-called-but-absent:" ++ k)
       | .err | .okEmpty =>
         -- nothing of this event may follow
         (match rest with
          | .pub s _ :: _ => if evName s = some (str k) then some ("published-after-failed-apply:" ++ k) else go fuel rest none
          | .listener _ _ :: _ => some ("listener-after-failed-apply:" ++ k)
          | _ => go fuel rest none)
       | .ok => (match rest with
          | .pub s _ :: _ => if evName s = some (str k) then go fuel rest (some k) else some ("apply-not-followed-by-publish:" ++ k)
          | _ => some ("apply-not-followed-by-publish:" ++ k)))
    | fuel + 1, .pub s _ :: rest =>
      (match evName s with
       | none => go fuel rest none
       | some name =>
         if name = str "reaccess" ∨ name = str "query" then go fuel rest none else
         let nm := Str.show name
         if applyOf nm = .ok ∧ prevApply ≠ some nm then some ("publish-without-preceding-apply:" ++ nm)
         else if applyOf nm = .err ∨ applyOf nm = .okEmpty then some ("published-despite-failed-apply:" ++ nm)
         else
           let ls := rest.take n
           let want := (List.range n).map (fun i => Eff.listener i name)
           if ls ≠ want then some ("listeners-not-called-in-order-after-publish:" ++ nm)
           else go fuel (rest.drop n) none)
    | _ + 1, .listener _ nm :: _ => some ("listener-without-publish:" ++ Str.show nm)
    | fuel + 1, .seen _ :: rest => go fuel rest none
  -- invalid calls publish nothing: the published events are, in order, among the *valid* event
  -- calls of the handler (wrong resource type, negative index, reserved or malformed name and an
  -- empty change are not valid calls)
  let typ := p.cfg.typ
  let validCalls : List Str := p.script.filterMap fun a => match a with
    | .change props => if typ ≠ 2 ∧ !props.isEmpty then some (str "change") else none
    | .add _ idx => if typ ≠ 1 ∧ idx ≥ 0 then some (str "add") else none
    | .remove idx => if typ ≠ 1 ∧ idx ≥ 0 then some (str "remove") else none
    | .create _ => some (str "create")
    | .delete => some (str "delete")
    | .custom name _ => if !Req.reserved.contains name ∧ Req.isValidPartB name then some name else none
    | _ => none
  let published : List Str := log.filterMap fun e => match e with
    | .pub s _ => (match evName s with
        | some nm => if nm = str "reaccess" ∨ nm = str "query" then none else some nm
        | none => none)
    | _ => none
  let rec embeds : List Str → List Str → Bool
    | [], _ => true
    | _ :: _, [] => false
    | x :: xs, y :: ys => if x = y then embeds xs ys else embeds (x :: xs) ys
  match go (log.length + 1) log none with
  | some why => "?viol:" ++ why
  | none => if embeds published validCalls then "?ok" else "?viol:event-published-for-an-invalid-event-call"

def tagOf (p : Parsed) (log : List Eff) : String :=
  let r := p.rin
  let t := match r.rtype with | .access => "access" | .get => "get" | .call => "call" | .auth => "auth"
  if !r.found then "req-" ++ t ++ "-nomatch"
  else if r.payload = .bad then "req-" ++ t ++ "-badpayload"
  else
    let invoked := log.any (fun e => match e with | .seen _ => true | _ => false)
    if !invoked then "req-" ++ t ++ "-nohandler"
    else
      let hasPanic := p.script.any (fun a => match a with | .panic _ => true | _ => false)
      let nEv := (log.filter (fun e => match e with | .pub s _ => (str "event.").isPrefixOf s | _ => false)).length
      let hasMeta := (replies log).any (fun pl => ((Json.parse pl).bind (·.get? "meta")).isSome)
      "req-" ++ t ++ "-h" ++ (if p.script.isEmpty then "-noreply" else "") ++ (if hasPanic then "-panic" else "") ++
        (if nEv > 0 then "-ev" else "") ++ (if hasMeta then "-meta" else "") ++
        (if log.any (fun e => match e with | .apply _ => true | _ => false) then "-apply" else "") ++
        (if log.any (fun e => match e with | .listener _ _ => true | _ => false) then "-ls" else "")

def run (mode : String) (args : List Str) (impl : String) : String × String × String :=
  match args with
  | c :: rest =>
    -- `req1`..`req3`: the same request on a service started with overlapping ownership lists
    -- `reqn`: the message has no reply subject: it is dropped before anything else happens —
    -- no handler runs and nothing whatsoever is published
    if c = str "reqn" then ("-", (if impl.isEmpty then "-" else if impl = "-" then "?ok" else "?viol:something-happened-for-a-request-without-reply-subject"), "req-noreply") else
    if !([str "req", str "req1", str "req2", str "req3", str "req4", str "reqr"].contains c) then ("bad-op", "-", "bad") else
    match parseReq rest with
    | none => ("bad-op", "-", "bad")
    | some p =>
      let log := Req.process p.cfg p.rin p.script
      let spec :=
        if impl.isEmpty then "-" else
        match decLog impl with
        | none => "?viol:unparsable-log:" ++ impl
        | some il => match mode with
          | "req04" => judge04 p il
          | "req05" => judge05 p il
          | "req07" => judge07 p il
          | "req08" => judge08 p il
          | _ => "-"
      (encLog log, spec, tagOf p log)
  | [] => ("bad-op", "-", "bad")

end GoRes.Driver.Req
