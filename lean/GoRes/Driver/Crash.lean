import GoRes.Model.StoreMap
import GoRes.Driver.Wire
/-! Driver for the `crash` domain (C12): a child process ran a workload on a real BadgerDB and was
killed at an instrumentation point; the parent reports which operations were acknowledged, what
the reopened database holds and what the index holds after `RebuildIndexes`.  The judgement:
the recovered values are those of the committed prefix (`StoreMap.recovered`) — the acknowledged
operations, plus possibly the one in flight, all-or-nothing —, Init seeded all-or-nothing and once,
and the rebuilt index is the image of the recovered values. -/
namespace GoRes.Driver.Crash
open GoRes GoRes.Wire GoRes.Index GoRes.StoreMap

abbrev D := Disk Bytes     -- values are the index key K

def seeds : List (Bytes × Bytes) := [(str "s1", str "seed"), (str "s2", str "seed2")]

def splitOn (c : Nat) (s : Str) : List Str :=
  let rec go : Str → Str → List Str
    | [], cur => [cur.reverse]
    | x :: r, cur => if x = c then cur.reverse :: go r [] else go r (x :: cur)
  go s []

/-- the transaction an operation commits in state `d`, or `none` when it fails / commits nothing -/
def txnOf (d : D) (op : Str) : Option (Txn Bytes) × Bool :=   -- (transaction, acknowledged-as-success)
  match splitOn 58 op with
  | [c] => if c = str "I" then (some (.init seeds), true) else (none, true)          -- F: flush
  | [c, id] => if c = str "D" then (if (vget d.vals id).isSome then (some (.put id none), true) else (none, false)) else (none, true)
  | [c, id, k] =>
    if c = str "C" then (if (vget d.vals id).isSome then (none, false) else (some (.put id (some k)), true))
    else if c = str "U" then (if (vget d.vals id).isSome then (some (.put id (some k)), true) else (none, false))
    else (none, true)
  | _ => (none, true)

def sortStr (l : List Str) : List Str := (l.toArray.qsort (fun a b => a < b)).toList

def encDisk (d : D) : String :=
  "values=" ++ ",".intercalate ((sortStr (d.vals.map fun (id, k) => id ++ 61 :: k)).map Str.show) ++ " marker=" ++ encBool d.marker

def encIdx (d : D) : String :=
  "idx=" ++ ",".intercalate ((spec (d.vals.map fun (id, k) => (k, id)) [] (fun _ => true) 0 (-1) false).map Str.show)

def field (impl key : String) : String :=
  (((impl.splitOn " ").find? (sstarts · (key ++ "="))).map (sdrop (key.length + 1))).getD ""

def run (args : List Str) (impl : String) : String × String × String :=
  match args with
  | c :: _prefix :: point :: _k :: ops =>
    if c ≠ str "crash" then ("bad-op", "-", "bad") else
    if impl.isEmpty then ("-", "-", "crash") else
    let status := (field impl "status").toList
    -- replay the acknowledged operations
    let rec go (d : D) (ops : List Str) (st : List Char) : Except String (D × Option (Txn Bytes)) :=
      match ops, st with
      | [], _ => .ok (d, none)
      | _, [] => .ok (d, none)
      | op :: rest, s :: srest =>
        let (t, okExpected) := txnOf d op
        if s = 'A' ∨ s = 'E' then
          if (s = 'A') ≠ okExpected then .error s!"operation-{Str.show op}-acknowledged-as-{s}-but-the-model-says-{if okExpected then "A" else "E"}"
          else go (match t with | some t => commit d t | none => d) rest srest
        else if s = '?' then .ok (d, t)           -- in flight when the process died
        else .ok (d, none)
    match go {} ops status with
    | .error why => ("inconsistent", "?viol:" ++ why, "crash-inconsistent")
    | .ok (d, inflight) =>
      let candidates : List D := d :: (match inflight with | some t => [commit d t] | none => [])
      let gotVals := "values=" ++ field impl "values" ++ " marker=" ++ field impl "marker"
      match candidates.find? (fun c => encDisk c = gotVals) with
      | none => ("expected-one-of:" ++ " | ".intercalate (candidates.map encDisk),
                 "?viol:recovered-state-is-neither-the-acknowledged-prefix-nor-that-plus-the-operation-in-flight", "crash-bad")
      | some cnd =>
        let idxOk := field impl "rebuilt" = "ok" ∧ ("idx=" ++ field impl "idx") = encIdx cnd
        (if idxOk then impl else "expected " ++ encIdx cnd,
         if idxOk then "?ok" else "?viol:index-after-RebuildIndexes-is-not-the-image-of-the-recovered-values",
         "crash-" ++ Str.show point ++ (if field impl "killed" = "T" then "-killed" else "-completed") ++
           (if candidates.length > 1 ∧ cnd.vals ≠ d.vals then "-inflight-applied" else ""))
  | _ => ("bad-op", "-", "bad")

end GoRes.Driver.Crash
