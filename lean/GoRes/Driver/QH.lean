import GoRes.Model.QueryHandler
import GoRes.Driver.Idx
/-! Driver for the `qh` domain (C14, the query handler): a client holding query results on
ordinary and query resources served by `store.QueryHandler`.

Model: the store/index model of `Driver/Idx.lean` + `QueryHandler.resourceEvent/queryRequest`
with the query store's answer (`badgerAnswer`, or `diffEvents` for the harness's event-producing
wrapper).  Specification: whatever the client is told, after reacting to it it holds what
"sort – filter – window" over the *values* gives (through the resource's transformer). -/
namespace GoRes.Driver.QH
open GoRes GoRes.Wire GoRes.Index GoRes.QueryHandler
open GoRes.Driver.Idx (Val idxs idxOf filterFn filterOpt)

inductive Kind | coll | fixed | byp | cbyp | qq | qc | qp
deriving Repr, DecidableEq

structure Query where
  ix : Bytes
  pre : Bytes
  filt : Bytes
  off : Int
  lim : Int
  rev : Bool
deriving Repr, DecidableEq

structure Held where
  rid : Bytes
  kind : Kind
  q : Query
  client : Content

structure St where
  idx : Idx.St := {}
  diff : Bool := false
  held : List Held := []
  started : Bool := false

def ridOf : RidOf := fun id => str "svc.item." ++ id

def transOf : Kind → Trans
  | .coll | .fixed | .qq => .none
  | .cbyp | .qc => .coll
  | .byp | .qp => .model

def isQuery : Kind → Bool
  | .qq | .qc | .qp => true
  | _ => false

def encContent : Content → String
  | .coll l => "c" ++ ",".intercalate (l.map encField)
  | .model m => "m" ++ ",".intercalate (m.map fun (k, v) => encField k ++ "=" ++ encField v)

def encCEv : CEv → String
  | .add v i => s!"add@{i}@{encField v}"
  | .remove i => s!"rm@{i}"
  | .change ps => "ch@" ++ ",".intercalate (ps.map fun (k, v) => encField k ++ "=" ++ (match v with | some x => encField x | none => "~"))

/-- the change event of the model transformer is rendered with its keys sorted (a JSON object) -/
def sortProps (ps : List (Bytes × Option Bytes)) : List (Bytes × Option Bytes) :=
  ps.foldl (fun acc p =>
    let rec ins : List (Bytes × Option Bytes) → List (Bytes × Option Bytes)
      | [] => [p]
      | q :: r => if blt p.1 q.1 then p :: q :: r else q :: ins r
    ins acc) []

def normCEv : CEv → CEv
  | .change ps => .change (sortProps ps)
  | e => e

def encTold : Told → String
  | .nothing => "none"
  | .resetRefetch c => "reset:" ++ encContent c
  | .queryResult c => "qres:" ++ encContent c
  | .events evs => "ev:" ++ ";".intercalate (evs.map (encCEv ∘ normCEv))
  | .queryEvents evs => "qev:" ++ ";".intercalate (evs.map (encCEv ∘ normCEv))

/-! ### parsing what the implementation told the client -/

def splitNE (s : String) (sep : String) : List String := if s.isEmpty then [] else s.splitOn sep

def parseContent (s : String) : Option Content :=
  if sstarts s "c" then ((splitNE (sdrop 1 s) ",").mapM decField).map .coll
  else if sstarts s "m" then
    ((splitNE (sdrop 1 s) ",").mapM fun (e : String) => match e.splitOn "=" with
      | [k, v] => do pure ((← decField k), (← decField v))
      | _ => none).map .model
  else none

def parseCEv (s : String) : Option CEv :=
  match s.splitOn "@" with
  | ["add", i, v] => do pure (.add (← decField v) (← i.toNat?))
  | ["rm", i] => do pure (.remove (← i.toNat?))
  | ["ch", kv] => do
    let ps ← (splitNE kv ",").mapM fun (e : String) => match e.splitOn "=" with
      | [k, v] => do
        let k ← decField k
        if v = "~" then pure (k, none) else do pure (k, some (← decField v))
      | _ => none
    pure (.change ps)
  | _ => none

def parseToldPart (s : String) : Option Told :=
  if s = "none" then some .nothing
  else if sstarts s "reset:" then (parseContent (sdrop 6 s)).map .resetRefetch
  else if sstarts s "qres:" then (parseContent (sdrop 5 s)).map .queryResult
  else if sstarts s "qev:" then ((splitNE (sdrop 4 s) ";").mapM parseCEv).map .queryEvents
  else if sstarts s "ev:" then ((splitNE (sdrop 3 s) ";").mapM parseCEv).map .events
  else none

def parseTold (s : String) : Option (List Told) := (s.splitOn "&").mapM parseToldPart

/-- events must be applicable: indexes in range, the right kind of resource -/
def applicable (c : Content) : CEv → Bool
  | .add _ i => (match c with | .coll l => i ≤ l.length | _ => false)
  | .remove i => (match c with | .coll l => i < l.length | _ => false)
  | .change _ => (match c with | .model _ => true | _ => false)

def applyChecked (c : Content) (evs : List CEv) : Except String Content :=
  evs.foldlM (fun c e => if applicable c e then .ok (applyCEv c e) else .error "event-not-applicable-to-what-the-client-holds") c

def clientApplyChecked (c : Content) : Told → Except String Content
  | .nothing => .ok c
  | .resetRefetch f => .ok f
  | .queryResult f => .ok f
  | .events evs => applyChecked c evs
  | .queryEvents evs => applyChecked c evs

/-! ### queries -/

def valsOf (s : Idx.St) : List (Bytes × Val) := s.vals

def specResult (vals : List (Bytes × Val)) (q : Query) : List Bytes :=
  spec (entriesOf (idxOf q.ix) vals) q.pre (filterFn q.filt) q.off q.lim q.rev

def modelResult (db : DB) (q : Query) : List Bytes :=
  (fetch (db.map (·.1)) (idxOf q.ix).name q.pre (filterFn q.filt) q.off q.lim q.rev).getD []

def int (s : Str) : Int := (Str.show s).toInt!

/-- the resource kind and query of a held resource -/
def parseHold (args : List Str) : Option (Bytes × Kind × Query) :=
  let plain (ix pre : Bytes) : Query := ⟨ix, pre, str "none", 0, -1, false⟩
  match args with
  | [rid] =>
    let s := Str.show rid
    if s = "coll" then some (rid, .coll, plain (str "k") [])
    else if s = "fixed" then some (rid, .fixed, ⟨str "kg", str "g_", str "none", 0, -1, true⟩)
    else if sstarts s "byp." then some (rid, .byp, plain (str "k") (rid.drop 4))
    else if sstarts s "cbyp." then some (rid, .cbyp, plain (str "k") (rid.drop 5))
    else none
  | [rid, pre, filt, off, lim, rev] =>
    let s := Str.show rid
    let q (ix : Bytes) : Query := ⟨ix, pre, filt, int off, int lim, rev = str "T"⟩
    if s = "qq" then some (rid, .qq, q (str "k"))
    else if s = "qc" then some (rid, .qc, q (str "k"))
    else if sstarts s "qp." then some (rid, .qp, q (rid.drop 3))
    else none
  | _ => none

def isLetters (s : Bytes) : Bool := !s.isEmpty && s.all (fun c => 97 ≤ c ∧ c ≤ 122)

/-- `AffectedResources` of the `byp`/`cbyp` resources: the letter-only prefixes (up to 3 bytes)
of the key before and after -/
def affectedPrefixes (before after : Option Val) : List Bytes :=
  let of (v : Option Val) : List Bytes := match v with
    | some v => ([1, 2, 3].filter (· ≤ v.k.length)).map (fun n => v.k.take n) |>.filter isLetters
    | none => []
  of before ++ of after

def targeted (h : Held) (before after : Option Val) : Bool :=
  match h.kind with
  | .byp => (affectedPrefixes before after).contains (h.rid.drop 4)
  | .cbyp => (affectedPrefixes before after).contains (h.rid.drop 5)
  | _ => true

/-- the query store's answer for one held query -/
def answer (diff : Bool) (h : Held) (id : Bytes) (before after : Option Val) (valsB valsA : List (Bytes × Val)) : Answer :=
  if diff then ⟨diffEvents id (specResult valsB h.q) (specResult valsA h.q), false⟩
  else badgerAnswer (idxOf h.q.ix) h.q.pre (filterOpt h.q.filt) before after

def toldFor (diff : Bool) (h : Held) (id : Bytes) (before after : Option Val) (valsB valsA : List (Bytes × Val)) (dbA : DB) : Told :=
  if !targeted h before after then .nothing else
  let a := answer diff h id before after valsB valsA
  let fresh := transformResult (transOf h.kind) ridOf (modelResult dbA h.q)
  if isQuery h.kind then queryRequest (transOf h.kind) ridOf a fresh
  else resourceEvent (transOf h.kind) ridOf a fresh

def toldKind : Told → String
  | .nothing => "none" | .resetRefetch _ => "reset" | .queryResult _ => "qres"
  | .events evs => if evs.any (fun e => match e with | .change _ => true | _ => false) then "ev-ch" else "ev-coll"
  | .queryEvents evs => if evs.isEmpty then "qev-empty"
      else if evs.any (fun e => match e with | .change _ => true | _ => false) then "qev-ch" else "qev-coll"

def dedup (l : List String) : List String := l.foldl (fun acc x => if acc.contains x then acc else acc ++ [x]) []

/-- a store mutation: model output, specification judgement, new state -/
def mutation (st : St) (id : Bytes) (op : StoreMap.Op Val) (impl : String) : St × String × String × String :=
  let valsB := st.idx.vals
  let (o, ist, tag) := Idx.mutate st.idx id op
  if tag ≠ "ok" then ({ st with idx := ist }, o, o, "mut-" ++ tag) else
  -- the index task of this mutation (at most one), run by the flush
  let task := ist.tasks.head?
  let (ist', _) := Idx.runTasks ist
  let valsA := ist'.vals
  let upd := match task with
    | some t => (updateIndex idxs t.id t.before t.after st.idx.db).2
    | none => false
  let tolds : List Told := st.held.map fun h =>
    match task with
    | some t => if upd then toldFor st.diff h t.id t.before t.after valsB valsA ist'.db else .nothing
    | none => .nothing
  let out := "ok told=" ++ (if tolds.isEmpty then "-" else "|".intercalate (tolds.map encTold))
  -- the implementation's account, fed to the reference client
  let implBody : Option String := if sstarts impl "ok told=" then some (sdrop 8 impl) else none
  let parsed : Option (List (List Told)) := match implBody with
    | some "-" => some []
    | some b => (b.splitOn "|").mapM parseTold
    | none => none
  let (held', verdict) : List Held × String :=
    match parsed with
    | some ps =>
      if ps.length ≠ st.held.length then (st.held, if impl.isEmpty then "-" else "?viol:unparsable-account")
      else
        let step := (st.held.zip ps).foldl (fun (acc : List Held × Option String) (h, parts) =>
          let r := parts.foldlM (fun c t => clientApplyChecked c t) h.client
          let expected := transformResult (transOf h.kind) ridOf (specResult valsA h.q)
          match r with
          | .ok c =>
            let bad := if c = expected then acc.2 else acc.2 <|> some ("client-of-" ++ Str.show h.rid ++ "-holds-a-result-a-fresh-get-does-not-serve")
            (acc.1 ++ [{ h with client := c }], bad)
          | .error e => (acc.1 ++ [{ h with client := expected }], acc.2 <|> some e)) ([], none)
        (step.1, match step.2 with | some why => "?viol:" ++ why | none => "?ok")
    | none =>
      -- no implementation outcome (pure model replay): the client follows the model
      let hs := (st.held.zip tolds).map fun (h, t) => { h with client := clientApply h.client t }
      (hs, if impl.isEmpty then "-" else "?viol:unparsable-account")
  ({ st with idx := ist', held := held' }, out, verdict,
    "mut-" ++ (if st.diff then "diff:" else "badger:") ++ ",".intercalate (dedup (tolds.map toldKind)))

def run (st : St) (args : List Str) (impl : String) : St × String × String × String :=
  let bad := (st, "bad-op", "-", "bad")
  match args with
  | [c] =>
    if c = str "reset" then ({}, "ok", "-", "triv-reset")
    else if c = str "fresh" then
      let m := st.held.map fun h => encContent (transformResult (transOf h.kind) ridOf (modelResult st.idx.db h.q))
      let s := st.held.map fun h => encContent (transformResult (transOf h.kind) ridOf (specResult st.idx.vals h.q))
      let f (l : List String) := "fresh=" ++ (if l.isEmpty then "-" else "|".intercalate l)
      (st, f m, f s, "fresh")
    else bad
  | c :: rest =>
    if c = str "start" then
      match rest with
      | [k] => ({ diff := k = str "diff", started := true }, "ok", "-", "triv-start")
      | _ => bad
    else if c = str "hold" then
      match parseHold rest with
      | none => bad
      | some (rid, kind, q) =>
        if st.held.any (fun h => h.rid = rid ∧ h.q = q) then (st, "already-held", "-", "triv-held")
        else
          let m := transformResult (transOf kind) ridOf (modelResult st.idx.db q)
          let s := transformResult (transOf kind) ridOf (specResult st.idx.vals q)
          let client := if sstarts impl "ok " then (parseContent (sdrop 3 impl)).getD m else m
          ({ st with held := st.held ++ [⟨rid, kind, q, client⟩] }, "ok " ++ encContent m, "ok " ++ encContent s,
            "hold-" ++ (match kind with | .coll => "coll" | .fixed => "fixed" | .byp => "byp" | .cbyp => "cbyp" | .qq => "qq" | .qc => "qc" | .qp => "qp"))
    else if c = str "delete" then
      match rest with
      | [id] => mutation st id .delete impl
      | _ => bad
    else if c = str "create" ∨ c = str "update" then
      match rest with
      | [id, k, g] => mutation st id (if c = str "create" then .create ⟨k, g⟩ true else .update ⟨k, g⟩ true) impl
      | _ => bad
    else bad
  | _ => bad

end GoRes.Driver.QH
