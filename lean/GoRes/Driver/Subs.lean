import GoRes.Model.Subs
import GoRes.Driver.Wire
/-! Driver commands for the `subs` domain (C09).

`serve NAME KINDS QUEUE R (nil | k r1…rk) A (nil | m a1…am)`; the implementation's
outcome (`subs=[…] q=… reset=…`) arrives with the line and is *judged* by the
specification (`Subs.judge`). -/
namespace GoRes.Driver.Subs
open GoRes GoRes.Wire GoRes.Subs

def num (s : Str) : Nat := (Str.show s).toNat!

def parseList : List Str → Option (Option (List Str) × List Str)
  | n :: rest =>
    if n = str "nil" then some (none, rest)
    else let k := num n; if rest.length < k then none else some (some (rest.take k), rest.drop k)
  | [] => none

def parseCfg (args : List Str) : Option (Cfg × Str) :=
  match args with
  | name :: kinds :: queue :: r :: rest =>
    if r ≠ str "R" then none else
    match parseList rest with
    | some (res, a :: rest2) =>
      if a ≠ str "A" then none else
      match parseList rest2 with
      | some (acc, []) =>
        let has (c : Char) := kinds.contains c.toNat
        some ({ name := name, hasRes := has 'g' || has 'c' || has 'u' || has 'n', hasAccess := has 'a',
                resources := res, access := acc }, queue)
      | _ => none
    | _ => none
  | _ => none

def encReset (res acc : List Str) : String :=
  if res.isEmpty && acc.isEmpty then "none" else s!"res:{encList res};acc:{encList acc}"

def modelOut (c : Cfg) (queue : Str) : String :=
  match subscribe c with
  | none => "err"
  | some subs =>
    let (res, acc) := ownership c
    s!"subs={encList subs} q={encField queue} reset={encReset res acc}"

/-- parse `subs=[a,b]` from the implementation's outcome -/
def implSubs (impl : String) : Option (List Str) :=
  match (impl.splitOn " ").find? (sstarts · "subs=[") with
  | none => none
  | some f =>
    let inner := sdropRight 1 (sdrop 6 f)
    if inner.isEmpty then some [] else (inner.splitOn ",").mapM decField

def implField (impl key : String) : Option String :=
  ((impl.splitOn " ").find? (sstarts · (key ++ "="))).map (sdrop (key.length + 1))

def run (args : List Str) (impl : String) : String × String × String :=
  match args with
  | c :: rest =>
    if c = str "reconnect" then
      -- "the system.reset sent on start, on ResetAll and on reconnect lists exactly the owned patterns"
      let out := "reconnect start-reset=T again-reset=T same=T"
      (out, out, "reconnect")
    else if c = str "serve" || c = str "serve2" || c = str "serve3" then
      -- serve3: as serve2, with the ownership lists set before the first run and not touched again
      -- (an explicit list stays, a list left nil is the default of the run at hand).
      -- serve2: the service has been served and shut down once before, with a single get handler
      -- (`early`); the other handlers were registered afterwards.  Ownership that was never set is
      -- the default *for the handler kinds registered when Serve is called*, as on a first Serve.
      match (parseCfg rest).map (fun (cfg, q) => (if c = str "serve2" || c = str "serve3" then { cfg with hasRes := true } else cfg, q)) with
      | none => ("bad-op", "-", "bad")
      | some (cfg, queue) =>
        let m := modelOut cfg queue
        let (res, acc) := ownership cfg
        let spec :=
          if impl.isEmpty then "-"
          else if res.isEmpty && acc.isEmpty then (if impl = "err" then "?ok" else "?viol:served-without-resources")
          else match implSubs impl with
            | none => "?viol:not-served"
            | some subs =>
              let j := judge cfg subs
              if j ≠ "ok" then "?viol:" ++ j
              else if implField impl "reset" ≠ some (encReset res acc) then "?viol:reset-mismatch"
              else if implField impl "q" ≠ some (encField queue) then "?viol:queue"
              else "?ok"
        let tag := match subscribe cfg with
          | none => "serve-none"
          | some subs =>
            let n := (allPatterns res acc).length
            if subs.length < n then "serve-pruned" else "serve-all"
        (m, spec, (if c = str "serve2" then "again-" else if c = str "serve3" then "again-set-before-" else "") ++ tag ++ (if cfg.resources.isNone && cfg.access.isNone then "-default" else "-explicit") ++ (if cfg.name.isEmpty then "-noname" else ""))
    else ("bad-op", "-", "bad")
  | [] => ("bad-op", "-", "bad")

end GoRes.Driver.Subs
