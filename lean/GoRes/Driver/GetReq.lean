import GoRes.Model.GetReq
import GoRes.Driver.Wire
/-! Driver for the `getreq` domain (C04, getrequest.go): `value <hasGet> <action>*`. -/
namespace GoRes.Driver.GetReq
open GoRes GoRes.Wire GoRes.GetReq

def splitBar (s : Str) : List Str :=
  let rec go : Str → Str → List Str
    | [], cur => [cur.reverse]
    | x :: r, cur => if x = 124 then cur.reverse :: go r [] else go r (x :: cur)
  go s []

/-- the values the harness hands to the get handler, by index (rendered canonically) -/
def vals : List Str := [b!"{\"a\":1}", b!"[1,2]", b!"null", b!"\"s\"", b!"{}", b!"[]", b!"{\"rid\":\"x.y\"}"]
def valAt (s : Str) : Str := vals.getD ((Str.show s).toNat! % vals.length) []

def parseAct (f : Str) : Option Act :=
  match splitBar f with
  | [k] =>
    if k = str "notFound" then some .notFound else if k = str "timeout" then some .timeout
    else if k = str "forvalue" then some .forValue else if k = str "value" then some .value
    else if k = str "requirevalue" then some .requireValue else none
  | [k, a] =>
    if k = str "model" then some (.model (valAt a)) else if k = str "collection" then some (.collection (valAt a))
    else if k = str "qmodel" then some (.queryModel (valAt a)) else if k = str "qcollection" then some (.queryCollection (valAt a))
    else if k = str "invalidQuery" then some (.invalidQuery a) else none
  | [k, g, t] =>
    if k = str "error" ∧ g = str "G" then some (.error (.other t))
    else if k = str "panic" ∧ g = str "G" then some (.panic (.err (.other t)))
    else if k = str "panic" ∧ g = str "S" then some (.panic (.str t))
    else if k = str "panic" ∧ g = str "O" then some (.panic (.val t))
    else none
  | [k, g, c, m] =>
    if k = str "error" ∧ g = str "R" then some (.error (.res c m))
    else if k = str "panic" ∧ g = str "R" then some (.panic (.err (.res c m)))
    else none
  | _ => none

def encErr : Option ErrV → String
  | none => "-"
  | some (.res c m) => "R|" ++ encField c ++ "|" ++ encField m
  | some (.other t) => "G|" ++ encField t

def render (r : Option Str × Option ErrV) : String :=
  "resp=1 v=" ++ (match r.1, r.2 with
    | some v, _ => encField v
    | none, none => encField b!"null"      -- Model(nil): a nil value and no error
    | none, some _ => "-") ++ " err=" ++ encErr r.2

def missing : Str := b!"Internal error: missing response on get request for \"svc.res\""

def run (args : List Str) : String × String × String :=
  match args with
  | [c] => if c = str "reset" then ("ok", "-", "triv-reset") else ("bad-op", "-", "bad")
  | c :: hg :: acts =>
    if c ≠ str "value" then ("bad-op", "-", "bad") else
    match acts.mapM parseAct with
    | none => ("bad-op", "-", "bad")
    | some script =>
      let hasGet := hg = str "T"
      let m := valueOf hasGet missing script
      let tag := if !hasGet then "gv-noget" else match firstOutcome script with
        | .value _ => "gv-value" | .error _ => "gv-error" | .panicked _ => "gv-panic" | .nothing => "gv-noreply"
      (render m, render (spec hasGet missing script), tag)
  | _ => ("bad-op", "-", "bad")

end GoRes.Driver.GetReq
