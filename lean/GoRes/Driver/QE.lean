import GoRes.Model.QueryEvent
import GoRes.Driver.Wire
/-! Driver for the `qe` domain (C15): the life of one query event. -/
namespace GoRes.Driver.QE
open GoRes GoRes.Wire GoRes.QueryEvent

structure DSt where
  typ : Nat := 0
  s : St := {}
  started : Bool := false

def int (s : Str) : Int := (Str.show s).toInt!
def num (s : Str) : Nat := (Str.show s).toNat!

def splitOn (c : Nat) (s : Str) : List Str :=
  let rec go : Str → Str → List Str
    | [], cur => [cur.reverse]
    | x :: r, cur => if x = c then cur.reverse :: go r [] else go r (x :: cur)
  go s []

def parseAct (f : Str) : Option QAct :=
  match (splitOn 58 f).map Str.show with
  | ["model", b] => some (.model (b = "T"))
  | ["collection", b] => some (.collection (b = "T"))
  | ["change", n, b] => some (.change n.toNat! (b = "T"))
  | ["add", i, b] => some (.add i.toInt! (b = "T"))
  | ["remove", i] => some (.remove i.toInt!)
  | ["notFound"] => some .notFound
  | ["invalidQuery", b] => some (.invalidQuery (b = "T"))
  | ["error", "R", c] => some (.error (.res (str c)))
  | ["error", "G"] => some (.error .go)
  | ["timeout", ms] => some (.timeout ms.toInt!)
  | ["panic", "R", c] => some (.panic (.res (str c)))
  | ["panic", "G"] => some (.panic .go)
  | ["panic", "S"] => some (.panic .str)
  | ["panic", "O"] => some (.panic .other)
  | _ => none

def parsePayload (p : Str) : Payload :=
  if p = str "e" then .empty else if p = str "b" ∨ p = str "t" ∨ p = str "u" then .bad else if p = str "n" then .noQuery else .ok

def encReply : Reply → String
  | .pre ms => s!"pre:{ms}"
  | .events n => s!"events:{n}"
  | .model => "model"
  | .collection => "collection"
  | .error c => "error:" ++ encField c

def encReplies (l : List Reply) : String := if l.isEmpty then "-" else ";".intercalate (l.map encReply)

/-- the specification for one request on an active query event: exactly one response (pre-responses
aside), an error for a missing query or a malformed payload -/
def judgeActive (payload : Payload) (impl : String) : String :=
  let items := if impl = "-" then [] else impl.splitOn ";"
  let resp := items.filter (fun i => !(sstarts i "pre:"))
  if resp.any (· = "garbage") then "?viol:a-reply-that-is-not-a-protocol-response"
  else if resp.length ≠ 1 then s!"?viol:{resp.length}-responses-to-a-query-request"
  else if payload ≠ .ok ∧ !(sstarts (resp.headD "") "error:") then "?viol:missing-query-or-malformed-payload-not-answered-with-an-error"
  else "?ok"

def runReq (d : DSt) (c p : Str) (acts : List Str) (impl : String) : DSt × String × String × String :=
  let bad := (d, "bad-op", "-", "bad")
  match acts.mapM parseAct with
  | none => bad
  | some script =>
    if c = str "req" then
      let (s', r) := step d.typ d.s (.request (parsePayload p) script)
      let spec := if impl.isEmpty then "-" else judgeActive (parsePayload p) impl
      ({ d with s := s' }, encReplies r, spec,
        "req-" ++ (match parsePayload p with | .ok => "ok" | .bad => "bad" | .empty => "empty" | .noQuery => "noquery") ++
        (if script.any (fun a => match a with | .panic _ => true | _ => false) then "-panic" else "") ++
        (if r.any (fun x => match x with | .events _ => true | _ => false) then "-events" else "") ++
        (if r.any (fun x => match x with | .pre _ => true | _ => false) then "-pre" else ""))
    else if c = str "late" then
      let before := d.s
      let (s', r) := step d.typ d.s (.request (parsePayload p) script)
      let out := s!"replies={encReplies r} cb=+{s'.cbCalls - before.cbCalls}"
      -- specification: after the nil call the callback is never invoked again
      ({ d with s := s' }, out, "replies=- cb=+0", "late")
    else bad

def run (d : DSt) (args : List Str) (impl : String) : DSt × String × String × String :=
  let bad := (d, "bad-op", "-", "bad")
  match args with
  | [c] =>
    if c = str "reset" then ({}, "ok", "-", "triv-reset")
    else if c = str "expire" then
      let (s', _) := step d.typ d.s .expire
      let out := s!"nil={s'.nilCalls} cb={s'.cbCalls} listener={if s'.listener then 1 else 0}"
      ({ d with s := s' }, out, out, "expire")
    else bad
  | [c, t] =>
    if c = str "serial" then
      -- the callbacks of a query event are tasks of the resource's group (`Model/Pool.lean`, C01):
      -- neither overlaps another callback of that group
      let out := "serial call-waits-for-callback=T callback-waits-for-call=T"
      (d, out, out, "serial")
    else if c = str "queued" then
      -- `run` on [request, request, expire]: both requests precede the expiry in the group's
      -- queue, so both are answered once and the nil call comes last
      let (s', rs) := QueryEvent.run 0 {} [.request .ok [.notFound], .request .ok [.notFound], .expire]
      let cnt (i : Nat) : Nat := ((rs.getD i []).filter isResponse).length
      let out := s!"queued r1={cnt 0} r2={cnt 1} order={String.join (List.replicate s'.cbCalls "q,")}{String.join (List.replicate s'.nilCalls "nil,")}"
      (d, out, out, "queued")
    else if c = str "burst" then
      -- `run` on three requests waiting in the group's queue: each is answered once, in arrival order
      -- (the group is FIFO, C02), by a callback that was handed that request
      let (s', rs) := QueryEvent.run 0 {} [.request .ok [.model true], .request .ok [.model true], .request .ok [.model true]]
      let cnt (i : Nat) : Nat := ((rs.getD i []).filter isResponse).length
      let out := s!"burst replies={cnt 0},{cnt 1},{cnt 2}, seen=a=1,a=2,a=3 own-answer=T"
      (d, if s'.cbCalls = 3 then out else "model-error", out, "burst")
    else if c = str "pubfail" then
      -- one reply per query request (`one_reply_per_query_request`): the reply the callback made is the
      -- request's answer whether or not the connection accepted it; nothing else is sent on that subject
      let (_, rs) := QueryEvent.run 0 {} [.request .ok [.notFound]]
      let n := ((rs.getD 0 []).filter isResponse).length
      let out := s!"pubfail attempts={n} delivered=0"
      (d, out, out, "pubfail")
    else if c = str "shutdownlive" then
      -- `released`: once the duration has passed nothing of a query event is left, whether or not
      -- the service is still running (the nil call itself needs a running service)
      let n := num t
      let out := s!"shutdownlive started={n} listeners-left=0"
      (d, out, out, "shutdownlive")
    else if c = str "restartdur" then
      -- the duration is the one configured for the run the query event belongs to
      (d, "restartdur nil=T early=F", "restartdur nil=T early=F", "restartdur")
    else if c = str "lateenq" then
      -- `run` on [expire, request]: the request reaches the group after the nil call and is dropped
      let (s', rs) := QueryEvent.run 0 {} [.expire, .request .ok [.notFound]]
      let out := s!"lateenq order={String.join (List.replicate s'.nilCalls "nil,")}{String.join (List.replicate s'.cbCalls "q,")} replies=" ++
        (if ((rs.getD 1 []).filter isResponse).length ≤ 1 then "at-most-one" else "many")
      (d, out, out, "lateenq")
    else if c = str "req" ∨ c = str "late" then runReq d c t [] impl
    else if c = str "start" then ({ typ := num t, s := {}, started := true }, "ok", "ok", "start")
    else if c = str "startfail" then
      let s := failedSubscribe
      let out := s!"nil={s.nilCalls} pubs=0 listener=0"
      ({ typ := num t, s := s, started := true }, out, out, "startfail")
    else if c = str "startstopped" then
      -- the other way a subscription fails: the service of the resource has been shut down
      -- (resource.go: `conn()` is nil); nil once, nothing published, nothing left behind
      let s := failedSubscribe
      let out := s!"nil={s.nilCalls} pubs=0 listener=0"
      ({ typ := num t, s := s, started := true }, out, out, "startstopped")
    else bad
  | c :: p :: acts => runReq d c p acts impl
  | _ => bad

end GoRes.Driver.QE
