import GoRes.Driver.Wire
import GoRes.Model.Basic
/-! Driver for the `reqload` domain (C04 under concurrent load): by `C04.one_response` every request
gets exactly one response and by `C02` none is dropped or run twice, so the expected outcome of a
load scenario is `answered = sent`, `dup = 0`. -/
namespace GoRes.Driver.ReqLoad
open GoRes GoRes.Wire

def num (s : Str) : Nat := (Str.show s).toNat!

def run (args : List Str) : String × String × String :=
  match args with
  | [c, _w] =>
    -- after a restart the service answers as a fresh one (`C03.restart`): nothing of the previous
    -- run — a group entry whose work item was dropped with the queue — is left behind
    if c = str "restart" then ("restart sent=3 answered=3", "restart sent=3 answered=3", "restart") else ("bad-op", "-", "bad")
  | [c, workers, inch, nres, nreq, block, _senders, _seed] =>
    if c ≠ str "load" then ("bad-op", "-", "bad") else
    let total := num nreq + (if block = str "T" then 1 else 0)
    let out := s!"sent={total} answered={total} dup=0"
    (out, out, "load" ++ (if block = str "T" then "-blocked" else "") ++ (if num inch < num nres then "-smallchan" else "") ++
      (if num workers = 1 then "-1worker" else ""))
  | _ => ("bad-op", "-", "bad")

end GoRes.Driver.ReqLoad
