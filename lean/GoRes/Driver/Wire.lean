import GoRes.Model.Basic
/-! Line protocol shared with the Go harness.

A line is a list of fields separated by single spaces.  A field is a byte
string, percent-encoded: every byte outside 0x21..0x7e, and `%` itself, is
written `%XX` (uppercase hex; also the separators `, ; : = @ |` used inside outcomes); the empty string is written `%_`. -/
namespace GoRes.Wire

def hexDigit (n : Nat) : Char :=
  if n < 10 then Char.ofNat (48 + n) else Char.ofNat (55 + n)

def unhex (c : Char) : Option Nat :=
  let n := c.toNat
  if 48 ≤ n ∧ n ≤ 57 then some (n - 48)
  else if 65 ≤ n ∧ n ≤ 70 then some (n - 55)
  else if 97 ≤ n ∧ n ≤ 102 then some (n - 87)
  else none

def encField (s : Str) : String :=
  if s.isEmpty then "%_" else
  String.ofList (s.flatMap fun b =>
    if b < 33 ∨ b > 126 ∨ b = 37 ∨ b = 44 ∨ b = 59 ∨ b = 58 ∨ b = 61 ∨ b = 64 ∨ b = 124 then ['%', hexDigit (b / 16), hexDigit (b % 16)]
    else [Char.ofNat b])

partial def decChars : List Char → Option Str
  | [] => some []
  | '%' :: '_' :: r => decChars r
  | '%' :: a :: b :: r => do
    let x ← unhex a; let y ← unhex b
    let rest ← decChars r
    pure ((x * 16 + y) :: rest)
  | '%' :: _ => none
  | c :: r => do let rest ← decChars r; pure (c.toNat :: rest)

def decField (s : String) : Option Str := decChars s.toList

def splitFields (line : String) : List String :=
  (line.splitOn " ").filter (· ≠ "")

def encList (l : List Str) : String := "[" ++ ",".intercalate (l.map encField) ++ "]"

def encBool (b : Bool) : String := if b then "T" else "F"

def encOptStr : Option Str → String
  | none => "none"
  | some s => "some:" ++ encField s

def sdrop (n : Nat) (s : String) : String := String.ofList (s.toList.drop n)
def sdropRight (n : Nat) (s : String) : String := String.ofList (s.toList.dropLast.take (s.length - n))
def sstarts (s pre : String) : Bool := pre.toList.isPrefixOf s.toList

end GoRes.Wire
