import GoRes.Model.Diff
import GoRes.Driver.Wire
/-! Driver commands for the `store` domain (C10): a store-backed resource served by
`store.Handler`, mutated through the store; the Lean side predicts the published events
(model) and keeps a reference RES client cache fed only by what the implementation
published / answered (specification). -/
namespace GoRes.Driver.Store
open GoRes GoRes.Wire GoRes.Diff

abbrev V := Val Str

inductive Cache
  | unknown | missing | deleted
  | val (v : V)

structure St where
  typ : Typ := .model
  trans : Bool := false
  xform : Bool := false        -- the transformer's Transform is not the identity
  hide : Bool := false         -- the transformer's Transform fails (not found) for values carrying a marker
  dflt : Option V := none
  store : List (Str × V) := []
  cache : List (Str × Cache) := []

def num (s : Str) : Nat := (Str.show s).toNat!

def prefixS : Str := str "svc.item."

def ridOf (st : St) (id : Str) : Str := if st.trans then prefixS ++ id else id
def idOf (st : St) (rid : Str) : Option Str :=
  if st.trans then (if prefixS.isPrefixOf rid ∧ rid.length > prefixS.length then some (rid.drop prefixS.length) else none)
  else some rid

def pairs : List Str → List (Str × Str)
  | k :: v :: r => (k, v) :: pairs r
  | _ => []

def parseVal (typ : Typ) : List Str → Option (V × List Str)
  | n :: rest =>
    let k := num n
    match typ with
    | .collection => if rest.length < k then none else some (.coll (rest.take k), rest.drop k)
    | .model => if rest.length < 2 * k then none else some (.model (pairs (rest.take (2 * k))), rest.drop (2 * k))
  | [] => none

def sortKV {β} (m : List (Str × β)) : List (Str × β) := (m.toArray.qsort (fun a b => a.1 < b.1)).toList

def encVal : V → String
  | .coll l => "coll:" ++ ",".intercalate (l.map encField)
  | .model m => "model:" ++ ",".intercalate ((sortKV m).map fun (k, v) => encField k ++ "=" ++ encField v)

def encEvs (rid : Str) : Out Str → String
  | .nothing => "-"
  | .badtype => "-"
  | .create => "create@" ++ encField rid
  | .delete => "delete@" ++ encField rid
  | .change ch => "change@" ++ encField rid ++ ":" ++ ",".intercalate ((sortKV ch).map fun (k, v) =>
      encField k ++ "=" ++ (match v with | some v => encField v | none => "<del>"))
  | .coll evs => ";".intercalate (evs.map fun e => match e with
      | .remove i => s!"remove@{encField rid}:{i}"
      | .add v i => s!"add@{encField rid}:{i}:{encField v}")

def aget {β} (l : List (Str × β)) (k : Str) : Option β := (l.find? (·.1 == k)).map (·.2)
def aset {β} (l : List (Str × β)) (k : Str) (v : β) : List (Str × β) :=
  if l.any (·.1 == k) then l.map (fun e => if e.1 == k then (k, v) else e) else l ++ [(k, v)]

/-! ### the reference client: parse what the implementation published -/

inductive PEv
  | create (rid : Str) | delete (rid : Str)
  | change (rid : Str) (ch : List (Str × Option Str))
  | remove (rid : Str) (idx : Int) | add (rid : Str) (idx : Int) (v : Str)
  | other

def parseInt (s : String) : Option Int := s.toInt?

def parseEv (s : String) : Option PEv :=
  match s.splitOn "@" with
  | [kind, rest] =>
    let parts := rest.splitOn ":"
    match kind, parts with
    | "create", [r] => (decField r).map .create
    | "delete", [r] => (decField r).map .delete
    | "remove", [r, i] => do pure (.remove (← decField r) (← parseInt i))
    | "add", [r, i, v] => do pure (.add (← decField r) (← parseInt i) (← decField v))
    | "change", [r, kv] => do
      let rid ← decField r
      let ch ← (if kv.isEmpty then [] else kv.splitOn ",").mapM fun (e : String) =>
        match e.splitOn "=" with
        | [k, v] => do
          let k ← decField k
          if v = "<del>" then pure (k, none) else do pure (k, some (← decField v))
        | _ => none
      pure (.change rid ch)
    | _, _ => some .other
  | _ => none

def implEvs (impl : String) : Option (List PEv) :=
  match (impl.splitOn " ").find? (sstarts · "evs=") with
  | none => none
  | some f =>
    let body := sdrop 4 f
    if body = "-" then some [] else (body.splitOn ";").mapM parseEv

/-- feed one published event to the client caches; `Except` carries the violation -/
def clientStep (cache : List (Str × Cache)) : PEv → Except String (List (Str × Cache))
  | .other => .ok cache
  | .create rid => match aget cache rid with
    | some (.val _) => .error "create-event-for-a-resource-the-client-holds"
    | _ => .ok (aset cache rid .unknown)
  | .delete rid => .ok (aset cache rid .deleted)
  | .change rid ch => match aget cache rid with
    | some (.val (.model m)) => .ok (aset cache rid (.val (.model (applyChange m ch))))
    | some (.val (.coll _)) => .error "change-event-on-collection"
    | _ => .ok cache
  | .remove rid i => match aget cache rid with
    | some (.val (.coll l)) => match applyEv l (.remove i) with
      | some l' => .ok (aset cache rid (.val (.coll l')))
      | none => .error s!"remove-index-out-of-range:{i}"
    | some (.val (.model _)) => .error "remove-event-on-model"
    | _ => .ok cache
  | .add rid i v => match aget cache rid with
    | some (.val (.coll l)) => match applyEv l (.add v i) with
      | some l' => .ok (aset cache rid (.val (.coll l')))
      | none => .error s!"add-index-out-of-range:{i}"
    | some (.val (.model _)) => .error "add-event-on-model"
    | _ => .ok cache

def parseGot (impl : String) : Option (Option V) :=
  if sstarts impl "err:system.notFound" then some none
  else if sstarts impl "coll:" then
    let b := sdrop 5 impl
    ((if b.isEmpty then [] else b.splitOn ",").mapM decField).map (fun l => some (.coll l))
  else if sstarts impl "model:" then
    let b := sdrop 6 impl
    ((if b.isEmpty then [] else b.splitOn ",").mapM fun (e : String) => match e.splitOn "=" with
      | [k, v] => do pure ((← decField k), (← decField v))
      | _ => none).map (fun m => some (.model m))
  else none

def sameVal : V → V → Bool
  | .coll a, .coll b => a = b
  | .model a, .model b => sortKV a = sortKV b
  | _, _ => false

/-- the client compares its cache with a fresh get -/
def judgeGet (c : Option Cache) (got : Option V) : String × Cache :=
  let now : Cache := match got with | some v => .val v | none => .missing
  match c, got with
  | none, _ | some .unknown, _ => ("?ok", now)
  | some .missing, none => ("?ok", now)
  | some .missing, some _ => ("?viol:resource-appeared-without-create-event", now)
  | some .deleted, none => ("?ok", now)
  | some .deleted, some _ => ("?viol:resource-served-after-delete-event-without-create", now)
  | some (.val _), none => ("?viol:resource-vanished-without-delete-event", now)
  | some (.val v), some g => (if sameVal v g then "?ok" else "?viol:stale-client:client=" ++ encVal v ++ ":fresh=" ++ encVal g, now)

/-- the harness' non-identity `Transform`: collections get a leading `"T"`, models a member `_t` -/
def tf (st : St) (v : V) : V :=
  if !st.xform then v else
  match v with
  | .coll l => .coll (str "\"T\"" :: l)
  | .model m => .model (mset m (str "_t") (str "1"))

/-- `Transform` as an operation that may fail: a hidden value has no served representation -/
def tfOpt (st : St) (v : V) : Option V :=
  let hidden : Bool := match v with
    | .coll l => l.contains (str "\"H\"")
    | .model m => m.any (·.1 = str "h")
  if st.hide && hidden then none else some (tf st v)

def served (st : St) (id : Str) : Option V :=
  match aget st.store id with
  | some v => tfOpt st v          -- a Transform error is answered with that error (not with the default)
  | none => st.dflt

def mutate (st : St) (id : Str) (after : Option V) (impl : String) (kind : String) : St × String × String × String :=
  let before := aget st.store id
  let okOp := match kind with
    | "create" => before.isNone
    | _ => before.isSome
  if !okOp then (st, "err", if impl = "err" then "?ok" else "?viol:store-accepted-invalid-op", kind ++ "-err")
  else
    -- a missing value is served as the default; a value whose Transform fails is treated as missing
    let rep (v : Option V) : Option V := match v with | none => st.dflt | some x => tfOpt st x
    let out := changeHandler st.typ none (rep before) (rep after)
    let st' := { st with store := match after with
      | some v => aset st.store id v
      | none => st.store.filter (·.1 != id) }
    let m := "ok evs=" ++ encEvs (ridOf st id) out
    let (spec, cache) := match implEvs impl with
      | none => ("?viol:unparsable-outcome", st.cache)
      | some evs => match evs.foldlM clientStep st.cache with
        | .ok c => ("?ok", c)
        | .error e => ("?viol:" ++ e, st.cache)
    let tag := kind ++ "-" ++ (match out with
      | .nothing => "silent" | .create => "createev" | .delete => "deleteev" | .change _ => "change"
      | .coll evs => (if evs.any (fun e => match e with | .remove _ => true | _ => false) then "rem" else "") ++
                     (if evs.any (fun e => match e with | .add _ _ => true | _ => false) then "add" else "")
      | .badtype => "badtype") ++ (if st.xform then "-xform" else "") ++
      (if st.hide ∧ (before.bind (tfOpt st)).isNone ∧ before.isSome ∧ (after.bind (tfOpt st)).isNone ∧ after.isSome then "-hidden-both" else if st.hide then "-hide" else "") ++ (if st.dflt.isSome ∧ (before.isNone ∨ after.isNone) then "-dflt" else "")
    ({ st' with cache := cache }, m, if impl.isEmpty then "-" else spec, tag)

def run (st : St) (args : List Str) (impl : String) : St × String × String × String :=
  let bad := (st, "bad-op", "-", "bad")
  match args with
  | [c] => if c = str "reset" then ({}, "ok", "-", "triv-reset") else bad
  | c :: rest =>
    if c = str "cfg" then
      match rest with
      | t :: tr :: d :: drest =>
        let typ := if t = str "model" then Typ.model else .collection
        let dflt := if d = str "D" then (parseVal typ drest).map (·.1) else none
        ({ typ := typ, trans := tr = str "T" ∨ tr = str "X", xform := tr = str "X", hide := tr = str "H", dflt := dflt }, "ok", "-", "triv-cfg")
      | _ => bad
    else if c = str "create" ∨ c = str "update" then
      match rest with
      | id :: vrest => match parseVal st.typ vrest with
        | some (v, _) => mutate st id (some v) impl (Str.show c)
        | none => bad
      | _ => bad
    else if c = str "delete" then
      match rest with
      | [id] => mutate st id none impl "delete"
      | _ => bad
    else if c = str "getrace" then
      -- the get handler holds the value's read transaction until it has answered: a concurrent
      -- update (and its events) comes after the response the client bases itself on — the
      -- client then applies the event to what it was given (`handler_coherent_*`)
      let evs := if rest = [str "model"] then "event" else "event"
      (st, "getrace order=response," ++ evs, "getrace order=response," ++ evs, "getrace")
    else if c = str "get" then
      match rest with
      | [rid] =>
        let sv := (idOf st rid).bind (served st)
        let m := match sv with | some v => encVal v | none => "err:system.notFound"
        if impl.isEmpty then (st, m, "-", "get") else
        match parseGot impl with
        | none => (st, m, "?viol:get-failed:" ++ impl, "get-err")
        | some got =>
          let (verdict, now) := judgeGet (aget st.cache rid) got
          ({ st with cache := aset st.cache rid now }, m, verdict,
            match sv with | some _ => (if (aget st.cache rid).isSome then "get-held" else "get-first") | none => "get-missing")
      | _ => bad
    else bad
  | [] => bad

end GoRes.Driver.Store
