import GoRes.Model.Index
import GoRes.Model.Txn
import GoRes.Model.StoreMap
import GoRes.Model.Lock
import GoRes.Driver.Wire
/-! Driver for the `idx` domain (C11 map semantics, C12 rebuild, C13 index queries, C14 query
change notifications): a store of values `{K, G}` with two indexes
(`k` = K, not indexed when K is empty; `kg` = G ++ "_" ++ K).

Model: store map + the index entries maintained by `updateIndex` (FIFO task queue, run at
`flush`) + `fetch` over the sorted keys.  Specification: queries are "sort – filter – window"
over the *values*; callbacks are judged against what the values say. -/
namespace GoRes.Driver.Idx
open GoRes GoRes.Wire GoRes.Index

structure Val where
  k : Bytes
  g : Bytes
deriving Repr, DecidableEq, Inhabited

/-- the harness writes the byte 0xFF of a binary key as `~` (values stay valid UTF-8) -/
def kb (k : Bytes) : Bytes := k.map (fun c => if c = 126 then 255 else c)

def idxK : Idx Val := ⟨str "k", fun v => if v.k.isEmpty then none else some (kb v.k)⟩
def idxKG : Idx Val := ⟨str "kg", fun v => some (kb (v.g ++ 95 :: v.k))⟩
/-- always indexed under K — the empty, non-nil key when K is empty — except values of group "n" -/
def idxE : Idx Val := ⟨str "e", fun v => if v.g = str "n" then none else some (kb v.k)⟩
def idxs : List (Idx Val) := [idxK, idxKG, idxE]

def idxOf (n : Bytes) : Idx Val := if n = str "kg" then idxKG else if n = str "e" then idxE else idxK

structure Task where
  id : Bytes
  before : Option Val
  after : Option Val
deriving Repr

structure Watch where
  idx : Bytes
  pre : Bytes
  filt : Bytes
deriving Repr

structure St where
  vals : List (Bytes × Val) := []
  db : DB := []                 -- index entries (model)
  tasks : List Task := []       -- queued index updates
  watches : List Watch := []
  veto : Bool := false
  mock : Bool := false
  pfx : Bool := false           -- the store has a key prefix
  genIds : Bool := false        -- mockstore with NewID: an empty id is replaced by a generated one
  gen : Nat := 0
  seeded : Bool := false        -- Init has run

def aget (l : List (Bytes × Val)) (k : Bytes) : Option Val := vget l k
def aset (l : List (Bytes × Val)) (k : Bytes) (v : Val) : List (Bytes × Val) := vset l k v

def filterFn (name : Bytes) : Bytes → Bool :=
  if name = str "even" then fun k => k.length % 2 = 0
  else if name = str "hasx" then fun k => k.contains 120
  else fun _ => true

def filterOpt (name : Bytes) : Option (Bytes → Bool) := if name = str "none" then none else some (filterFn name)

def num (s : Str) : Nat := (Str.show s).toNat!
def int (s : Str) : Int := (Str.show s).toInt!

def encIds (l : List Bytes) : String := "[" ++ ",".intercalate (l.map encField) ++ "]"


def encOptVal : Option Val → String
  | none => "nil"
  | some v => encField v.k ++ "/" ++ encField v.g

def cbStr (id : Bytes) (b a : Option Val) : String := encField id ++ ":" ++ encOptVal b ++ ">" ++ encOptVal a

/-- run the queued index tasks (FIFO); returns the query-change callbacks with the `affected`
flag for every watch -/
def runTasks (st : St) : St × List String :=
  let (db, out) := st.tasks.foldl (fun (acc : DB × List String) t =>
    let (db', upd) := updateIndex idxs t.id t.before t.after acc.1
    if upd then
      let affs := st.watches.map fun w => encBool (affectsQuery (idxOf w.idx) w.pre (filterOpt w.filt) t.before t.after)
      (db', acc.2 ++ [encField t.id ++ ":" ++ "".intercalate affs])
    else (db', acc.2)) (st.db, [])
  ({ st with db := db, tasks := [] }, out)

/-- C14 judgement of the implementation's callback list of one flush against the values -/
def judgeCallbacks (st : St) (impl : String) : String :=
  -- expected: one callback per queued mutation that changes the key in some index, in order
  let expected := st.tasks.filter fun t => idxs.any (fun ix => (t.before.bind ix.key) ≠ (t.after.bind ix.key))
  let body := sdrop 4 impl   -- "cbs="
  let items := if body = "-" then [] else body.splitOn ";"
  if items.length ≠ expected.length then s!"?viol:{items.length}-query-change-callbacks-expected-{expected.length}"
  else
    -- replay values to know the result of each watch before/after each mutation
    let rec go (fuel : Nat) (ts : List Task) (its : List String) (vals : List (Bytes × Val)) : String :=
      match fuel, ts, its with
      | 0, _, _ => "?ok"
      | _, [], _ => "?ok"
      | _, _, [] => "?ok"
      | fuel + 1, t :: ts', it :: its' =>
        match it.splitOn ":" with
        | [idE, flags] =>
          if decField idE ≠ some t.id then s!"?viol:callback-for-wrong-id-or-out-of-order"
          else
            let valsBefore := match t.before with | some b => aset vals t.id b | none => vals.filter (·.1 != t.id)
            let valsAfter := match t.after with | some a => aset vals t.id a | none => vals.filter (·.1 != t.id)
            let bad := (st.watches.zip flags.toList).findSome? fun (w, f) =>
              let ix := idxOf w.idx
              let q (vs : List (Bytes × Val)) := spec (entriesOf ix vs) w.pre (filterFn w.filt) 0 (-1) false
              let changed := q valsBefore ≠ q valsAfter
              let m (v : Option Val) : Bool := match v.bind ix.key with
                | some k => w.pre.isPrefixOf k && filterFn w.filt k
                | none => false
              if changed ∧ f ≠ 'T' then some "result-changed-but-reported-unaffected"
              else if !m t.before ∧ !m t.after ∧ f ≠ 'F' then some "neither-key-matches-but-reported-affected"
              else none
            match bad with
            | some why => "?viol:" ++ why
            | none => go fuel ts' its' valsAfter
        | _ => "?viol:unparsable-callback"
    -- the values before the queued tasks: undo is not needed, tasks carry before/after
    let vals0 := expected.foldr (fun t vs => match t.before with | some b => aset vs t.id b | none => vs.filter (·.1 != t.id)) st.vals
    go (expected.length + 1) expected items vals0

def encErr : StoreMap.Err → String
  | .duplicate => "err:dup" | .notFound => "err:notfound" | .wrongType => "err:type" | .veto => "err:veto" | .noId => "err:noid"

/-- one mutation through the store model (`StoreMap.exec`); the callbacks also queue the index tasks -/
def mutate (st : St) (id : Bytes) (op : StoreMap.Op Val) : String × St × String :=
  let (r, cbs, s') := StoreMap.exec (V := Val) ⟨st.vals, st.veto, false⟩ id op
  match r with
  | .ok =>
    (("ok cbs=" ++ ";".intercalate (cbs.map fun cb => cbStr cb.id cb.before cb.after)),
      { st with vals := s'.vals, tasks := st.tasks ++ cbs.map (fun cb => ⟨cb.id, cb.before, cb.after⟩) }, "ok")
  | .err e => (encErr e, st, match e with | .duplicate => "dup" | .notFound => "missing" | .wrongType => "wrongtype" | .veto => "veto" | .noId => "noid")
  | _ => ("bad", st, "bad")

/-! ### several operations in one write transaction; lock exclusion; concurrent histories -/

def splitOn (c : Nat) (s : Str) : List Str :=
  let rec go : Str → Str → List Str
    | [], cur => [cur.reverse]
    | x :: r, cur => if x = c then cur.reverse :: go r [] else go r (x :: cur)
  go s []

/-- a step of a transaction: `V`, `E`, `C:k:g`, `U:k:g`, `D` -/
def parseStep (s : Str) : Option (StoreMap.Op Val) :=
  match splitOn 58 s with
  | [c] => if c = str "V" then some .value else if c = str "E" then some .exists_ else if c = str "D" then some .delete else none
  | [c, k, g] => if c = str "C" then some (.create ⟨k, g⟩ true) else if c = str "U" then some (.update ⟨k, g⟩ true) else none
  | _ => none

def encRes : StoreMap.Res Val → String
  | .ok => "ok"
  | .err e => encErr e
  | .val v => "val:" ++ encOptVal (some v)
  | .bool b => encBool b

/-- the steps of one write transaction on `id`, in order -/
def runTxn (st : St) (id : Bytes) (steps : List (StoreMap.Op Val)) : St × List String × List (StoreMap.Cb Val) :=
  steps.foldl (fun (acc : St × List String × List (StoreMap.Cb Val)) op =>
    let (s, outs, cbs) := acc
    let (r, c, s') := StoreMap.exec (V := Val) ⟨s.vals, s.veto, false⟩ id op
    ({ s with vals := s'.vals, tasks := s.tasks ++ c.map (fun cb => ⟨cb.id, cb.before, cb.after⟩) }, outs ++ [encRes r], cbs ++ c)) (st, [], [])

/-- replay of an observed concurrent history (events ordered by stamps taken inside the
transactions): every result and every callback must be what the per-id map gives when the
operations are applied one at a time in that order -/
def replayHist (entries : List Str) : Option (Nat × String) :=
  let rec go (i : Nat) (es : List Str) (vals : List (Bytes × Val)) (pending : List (Bytes × String)) : Option (Nat × String) :=
    match es with
    | [] => if pending.isEmpty then none else some (i, "callback-without-a-mutation")
    | e :: rest =>
      match splitOn 124 e with
      | [k, id, ba] =>
        if k = str "cb" then go (i + 1) rest vals (pending ++ [(id, Str.show ba)]) else some (i, "unparsable-entry")
      | [k, id, op, res] =>
        if k ≠ str "op" then some (i, "unparsable-entry") else
        match parseStep op with
        | none => some (i, "unparsable-operation")
        | some o =>
          let (r, cbs, s') := StoreMap.exec (V := Val) ⟨vals, false, false⟩ id o
          let expectedCbs := cbs.map fun cb => encOptVal cb.before ++ ">" ++ encOptVal cb.after
          let mine := (pending.filter (·.1 = id)).map (·.2)
          if encRes r ≠ Str.show res then some (i, s!"result-{Str.show res}-where-the-map-gives-{encRes r}")
          else if mine ≠ expectedCbs then some (i, "callbacks-" ++ ",".intercalate mine ++ "-where-the-map-gives-" ++ ",".intercalate expectedCbs)
          else go (i + 1) rest s'.vals (pending.filter (·.1 ≠ id))
      | _ => some (i, "unparsable-entry")
  go 0 entries [] []

def runExt (st : St) (args : List Str) : Option (St × String × String × String) :=
  match args with
  | c :: rest =>
    if c = str "txn" then
      match rest with
      | id :: steps =>
        match steps.mapM parseStep with
        | none => some (st, "bad-op", "-", "bad")
        | some ops =>
          let (st', outs, cbs) := runTxn st id ops
          let o := ";".intercalate outs ++ " cbs=" ++ (if cbs.isEmpty then "-" else ";".intercalate (cbs.map fun cb => cbStr cb.id cb.before cb.after))
          some (st', o, o, "txn" ++ (if cbs.length > 1 then "-multi" else "") ++
            (if ops.any (fun o => match o with | .value => true | _ => false) then "-read" else ""))
      | _ => some (st, "bad-op", "-", "bad")
    else if c = str "excl" then
      match rest with
      | [held, cont, same] =>
        -- badgerstore: a read/write lock per id; mockstore: one read/write lock for the store (`Model/Lock.lean`)
        let m := if st.mock then !Lock.grantedMock (held = str "W") (cont = str "W")
                 else !Lock.grantedBadger (held = str "W") (cont = str "W") (same = str "same")
        -- C11: while a transaction on an id is open no write transaction on that id makes progress
        let spec := if same = str "same" ∧ cont = str "W" then "blocked:T" else "-"
        some (st, "blocked:" ++ encBool m, spec, "excl-" ++ Str.show held ++ Str.show cont ++ "-" ++ Str.show same)
      | _ => some (st, "bad-op", "-", "bad")
    else if c = str "dclose" then
      -- closing a closed transaction is an error and releases nothing (`Lock.step` has no release
      -- for a lock that is not held): the writer that holds the id keeps excluding other writers
      some (st, "second-close=err blocked:T", "second-close=err blocked:T", "dclose")
    else if c = str "collide" then
      match rest with
      | [id] =>
        -- specification: the value is served and found by the query before and after the rebuild
        let want := s!"query=[{encField id}] value-after-rebuild=val:zz/g query-after-rebuild=[{encField id}]"
        -- model: value keys are `<prefix><id>`, index entries `<name>:<key>\0<id>`; without a prefix an id
        -- starting with `k:` lies inside index k's key range: the scan meets an entry without separator
        -- (error) and RebuildIndexes' DropPrefix removes the value (known finding)
        let collides := !st.mock ∧ !st.pfx ∧ (str "k:").isPrefixOf id
        let m := if collides then "query=err value-after-rebuild=err:notfound query-after-rebuild=[]" else want
        some (st, m, want, if collides then "collide-keyspace" else "collide-none")
      | _ => some (st, "bad-op", "-", "bad")
    else if c = str "hist" then
      match rest with
      | kind :: entries =>
        match replayHist entries with
        | none => some (st, "ok", "?ok", "hist-" ++ Str.show kind)
        | some (i, why) => some (st, s!"reject:{i}:{why}", s!"?viol:history-is-not-a-per-id-sequential-history-at-{i}:{why}", "hist-rejected")
      | _ => some (st, "bad-op", "-", "bad")
    else none
  | _ => none

def hasNul (st : St) : Bool := st.vals.any (fun e => e.2.k.contains 0 || e.2.g.contains 0 || e.1.contains 0)

def run (st : St) (args : List Str) (impl : String) : St × String × String × String :=
  let bad := (st, "bad-op", "-", "bad")
  match runExt st args with
  | some r => r
  | none =>
  match args with
  | [c] =>
    if c = str "reset" then ({}, "ok", "-", "triv-reset")
    else if c = str "flush" then
      let spec := if impl.isEmpty then "-" else judgeCallbacks st impl
      let (st', out) := runTasks st
      (st', "cbs=" ++ (if out.isEmpty then "-" else ";".intercalate out), spec, if out.isEmpty then "flush-quiet" else "flush-callbacks")
    else if c = str "rebuild" then
      -- RebuildIndexes: drop every index entry, rescan the values
      ({ st with db := rebuild idxs st.vals st.db }, "ok", "?ok", "rebuild")
    else if c = str "corrupt" then
      -- the harness wipes/garbles index entries directly in the database; the model forgets them
      ({ st with db := [] }, "ok", "-", "corrupt")
    else if c = str "initrace" then
      -- a Create of the seed id commits while Init's transaction is open: the outcome is computed by the
      -- transaction model (`Model/Txn.lean`, theorems `init_keeps_concurrent_writes`, `init_failed_inert`,
      -- `init_serializable` in Props/C12).  The hook is only reached when the store is not yet initialised;
      -- the racing Create is acknowledged only when the id is free.
      let user : Val := ⟨str "user", str "g"⟩
      let seedV : Val := ⟨str "seed", str "g"⟩
      let s1 := str "s1"
      let marker := str "$init"
      let db0 : Txn.DB Val := ({} : Txn.DB Val).putAll
        (st.vals.map (fun e => (e.1, some e.2)) ++ (if st.seeded then [(marker, some seedV)] else []))
      let reached := !st.seeded
      let createOk := reached && (aget st.vals s1).isNone
      let (db', ok, created) := Txn.initRun db0 marker seedV [(s1, seedV)] (if createOk then [(s1, some user)] else [])
      let out := "init=" ++ (if ok then "ok" else "err") ++ " create=" ++
        (if !reached then "none" else if createOk then "ok" else "err:dup")
      let vals' := match db'.get s1 with | some v => aset st.vals s1 v | none => st.vals.filter (·.1 != s1)
      let st' := { st with vals := vals', seeded := (db'.get marker).isSome,
                           tasks := st.tasks ++ (if createOk then [⟨s1, none, some user⟩] else []) ++
                                    created.map (fun e => ⟨e.1, none, some e.2⟩) }
      (st', out, out, if !reached then "initrace-again" else if createOk then "initrace-conflict" else "initrace-dup")
    else if c = str "init" then
      -- Init seeds s1 once
      if st.seeded then (st, "ok cbs=-", "ok cbs=-", "init-again")   -- C12: seeds exactly once
      else
        let seeds : List (Bytes × Val) := [(str "s1", ⟨str "seed", str "g"⟩)]
        let fresh := seeds.filter (fun e => (aget st.vals e.1).isNone)
        let st' := { st with seeded := true, vals := fresh.foldl (fun vs e => aset vs e.1 e.2) st.vals,
                             tasks := st.tasks ++ fresh.map (fun e => ⟨e.1, none, some e.2⟩) }
        -- (the order in which Init reports the created seeds is a Go map order: compared as a set)
        (st', "ok cbs=" ++ (if fresh.isEmpty then "-" else ";".intercalate ((fresh.map fun e => cbStr e.1 none (some e.2)))), "-", "init-first")
    else bad
  | [c, a] =>
    if c = str "cfg" then ({ mock := a = str "mock" ∨ a = str "mockid", genIds := a = str "mockid", pfx := a = str "badgerp" }, "ok", "-", "triv-cfg")
    else if c = str "veto" then ({ st with veto := a = str "on" }, "ok", "-", "triv-veto")
    else if c = str "untyped" then
      -- a second, untyped store under its own prefix: the outcome of create / update with a value of the
      -- wrong type (a named map type, a string) / value / create with the wrong type, by the store model
      let cls (r : StoreMap.Res Val) : String := match r with | .ok => "ok" | .err e => encErr e | _ => "other"
      let s0 : StoreMap.St Val := ⟨[], false, false⟩
      let good : Val := ⟨str "a", str "1"⟩
      let (r1, c1, s1) := StoreMap.exec s0 a (.create good true)
      let (r2, c2, s2) := StoreMap.exec s1 a (.update good false)
      let (r3, c3, s3) := StoreMap.exec s2 a (.update good false)
      let (r4, c4, s4) := StoreMap.exec s3 (a ++ str ".2") (.create good false)
      let kept := (aget s3.vals a) == (aget s1.vals a) && (aget s1.vals a).isSome
      -- the listener-less store: delete (missing), create, create (duplicate), delete, delete (missing), update (missing)
      let quiet := Id.run do
        let mut st : StoreMap.St Val := ⟨[], false, false⟩
        let mut outs : List String := []
        for op in [StoreMap.Op.delete, .create good true, .create good true, .delete, .delete, .update good true] do
          let (r, _, st') := StoreMap.exec st a op
          st := st'
          outs := outs ++ [cls r]
        return ",".intercalate outs
      let o := s!"create={cls r1} update-named={cls r2} update-string={cls r3} value={if kept then encField (str "{\"a\":1}") else "changed"} create-named={cls r4} exists={encBool (aget s4.vals (a ++ str ".2")).isSome} cbs={(c1 ++ c2 ++ c3 ++ c4).length} quiet={quiet}"
      (st, o, o, "untyped")
    else if c = str "slow" then (st, "ok", "-", "triv-slow")
    else if c = str "initbad" then
      -- an invalid seed among valid ones: Init is all-or-nothing (never half-seeding); once the store is
      -- marked, Init returns before it looks at the seeds
      if st.seeded then (st, "ok cbs=-", "ok cbs=-", "initbad-marked") else (st, "err cbs=-", "err cbs=-", "initbad")
    else if c = str "delete" then
      let (o, st', tag) := mutate st a .delete
      (st', o, o, "delete-" ++ tag)
    else if c = str "value" then
      let o := match aget st.vals a with | some v => "val:" ++ encOptVal (some v) | none => "err:notfound"
      (st, o, o, if (aget st.vals a).isSome then "value-hit" else "value-miss")
    else if c = str "exists" then
      let o := encBool (aget st.vals a).isSome
      (st, o, o, "exists")
    else if c = str "createbad" then
      let (o, st', _) := mutate st a (.create default false)
      (st', o, o, "create-wrongtype")
    else bad
  | [c, id, k, g] =>
    let v : Val := ⟨k, g⟩
    if c = str "create" then
      -- a store that generates ids does so for an empty id only (`NewID`, called before anything else)
      let (st, id, gtag) := if st.genIds ∧ id.isEmpty then ({ st with gen := st.gen + 1 }, str s!"gen{st.gen + 1}", "-generated") else (st, id, "")
      let (o, st', tag) := mutate st id (.create v true)
      (st', o, o, "create-" ++ tag ++ gtag)
    else if c = str "update" then
      let b := aget st.vals id
      let (o, st', tag) := mutate st id (.update v true)
      (st', o, o, "update-" ++ (if tag = "ok" then (if idxs.any (fun ix => b.bind ix.key ≠ ix.key v) then "keychange" else "samekeys") else tag))
    else if c = str "watch" then
      ({ st with watches := st.watches ++ [⟨id, kb k, g⟩] }, "ok", "-", "triv-watch")
    else bad
  | [c, ixn, pre, filt, off, lim, rev] =>
    if c = str "query" then
      let pre := kb pre
      let ix := idxOf ixn
      let allKeys := st.db.map (·.1)
      let m := fetch allKeys ix.name pre (filterFn filt) (int off) (int lim) (rev = str "T")
      let mo := match m with | some ids => encIds ids | none => "err"
      let sp := encIds (spec (entriesOf ix st.vals) pre (filterFn filt) (int off) (int lim) (rev = str "T"))
      -- the index reflects the values only after a flush
      -- keys containing 0x00 are not ordered by (key, id) on disk (known finding): the result of a
      -- full-window query is then a permutation of the expected one; for a windowed query the
      -- specification gives no opinion in that state
      let windowed := int off ≠ 0 ∨ int lim ≥ 0
      let spec := if !st.tasks.isEmpty then "-" else if hasNul st ∧ windowed then "-" else sp
      let tag := "query" ++ (if rev = str "T" then "-rev" else "") ++ (if pre.isEmpty then "-all" else "") ++
        (if (int lim) < 0 then "-nolimit" else if int lim = 0 then "-zero" else "") ++ (if int off > 0 then "-offset" else "") ++
        (if filt ≠ str "none" then "-filter" else "") ++ (match m with | some [] => "-empty" | _ => "") ++ (if hasNul st then "-nul" else "")
      (st, mo, spec, tag)
    else bad
  | _ => bad

end GoRes.Driver.Idx
