import GoRes.Model.Legacy
import GoRes.Driver.Wire
/-! Driver for the `legacy` domain (C20): the deprecated BadgerDB middleware, both packages. -/
namespace GoRes.Driver.Legacy
open GoRes GoRes.Wire GoRes.Legacy

structure DSt where
  indexed : Bool := false         -- package resbadger, typed model with the index set {ia: member a, ib: member b}
  cfg : Cfg := ⟨true, none, false⟩
  stored : Option LVal := none
  history : List Ev := []         -- successfully applied events since the configuration (specification side)

def num (s : Str) : Nat := (Str.show s).toNat!
def int (s : Str) : Int := (Str.show s).toInt!

def pairs : List Str → List (Str × Str)
  | k :: v :: r => (k, v) :: pairs r
  | _ => []

def parseVal (isModel : Bool) : List Str → Option LVal
  | n :: rest =>
    let k := num n
    if isModel then (if rest.length < 2 * k then none else some (.model (pairs (rest.take (2 * k)))))
    else (if rest.length < k then none else some (.coll (rest.take k)))
  | [] => none

def sortKV {β} (m : List (Str × β)) : List (Str × β) := (m.toArray.qsort (fun a b => a.1 < b.1)).toList

def encVal : Option LVal → String
  | none => "nil"
  | some (.coll l) => "coll:" ++ ",".intercalate (l.map encField)
  | some (.model m) => "model:" ++ ",".intercalate ((sortKV m).map fun (k, v) => encField k ++ "=" ++ encField v)

def encOld (o : List (Str × Option Str)) : String :=
  "{" ++ ",".intercalate ((sortKV o).map fun (k, v) => encField k ++ "=" ++ (match v with | some x => encField x | none => "<del>")) ++ "}"

def encOutcome (o : Outcome) : String :=
  s!"pub={encBool o.published} fail={encBool o.failed} old={encOld o.old} data={encVal o.data}"

def del : Str := str "<del>"

def run (d : DSt) (args : List Str) : DSt × String × String × String :=
  let bad := (d, "bad-op", "-", "bad")
  let doEv (e : Ev) (tag : String) : DSt × String × String × String :=
    let (st', o) := apply d.cfg d.stored e
    -- the specification: an event that cannot be applied publishes nothing and leaves storage unchanged;
    -- what is served afterwards is the fold of the applied events (checked at `get`)
    let d' := { d with stored := st', history := if o.published then d.history ++ [e] else d.history }
    (d', encOutcome o, encOutcome o, tag ++ (if o.failed then "-fail" else if o.published then "-pub" else "-silent"))
  match args with
  | [c] =>
    if c = str "reset" then ({}, "ok", "-", "triv-reset")
    else if c = str "delete" then doEv .delete "delete"
    else if c = str "change" then doEv (.change []) "change"
    else if c = str "bigints" then
      -- create [big1, big2, big3, "x"], add "y" at 1, remove 1, remove 3: the fold leaves the three numbers
      -- exactly as they were given (a JSON number is its text)
      let o := "coll=" ++ encField (str "[9007199254740993,-9007199254740995,123456789012345678901234567890]")
      (d, o, o, "bigints")
    else if c = str "reopen" then (d, "ok", "-", "reopen")
    else if c = str "get" then
      let m := match served d.cfg d.stored with | some v => encVal (some v) | none => "err:system.notFound"
      -- specification: the fold of the successfully applied events over the initial (empty) state
      let sp := match served d.cfg (fold d.cfg none d.history) with | some v => encVal (some v) | none => "err:system.notFound"
      (d, m, sp, if d.stored.isSome then "get-stored" else if d.cfg.dflt.isSome then "get-default" else "get-missing")
    else bad
  | c :: rest =>
    if c = str "cfg" then
      match rest with
      | pkg :: t :: dk :: drest =>
        let isModel := t = str "model"
        -- deleting a resource that is not stored is an error only in package resbadger without an index
        -- set (its typed-value decoding of nothing fails); with an index set the decoding is skipped
        ({ cfg := ⟨isModel, if dk = str "D" then parseVal isModel drest else none, pkg = str "rb"⟩,
           indexed := pkg = str "rbi" }, "ok", "-", "triv-cfg")
      | _ => bad
    else if c = str "change" then
      doEv (.change ((pairs rest).map fun (k, v) => (k, if v = del then none else some v))) "change"
    else if c = str "iq" then
      -- the query collection over the index set: the resource is listed under index `ia`/`ib` iff the
      -- stored model has the member `a`/`b`, keyed by the member's JSON text
      match rest with
      | [ix, pre] =>
        let member : Str := if ix = str "ia" then str "a" else str "b"
        let of (v : Option LVal) : String := match v with
          | some (.model m) => (match mget m member with
            | some text => if pre.isPrefixOf text then "[svc.r]" else "[]"
            | none => "[]")
          | _ => "[]"
        (d, of d.stored, of (fold d.cfg none d.history), if of d.stored = "[]" then "iq-empty" else "iq-hit")
      | _ => bad
    else if c = str "add" then
      match rest with | [v, i] => doEv (.add v (int i)) "add" | _ => bad
    else if c = str "remove" then
      match rest with | [i] => doEv (.remove (int i)) "remove" | _ => bad
    else if c = str "create" then
      match parseVal d.cfg.isModel rest with | some v => doEv (.create v) "create" | none => bad
    else bad
  | [] => bad

end GoRes.Driver.Legacy
