import GoRes.Model.SvcApi
import GoRes.Model.Json
import GoRes.Driver.Wire
/-! Driver for the `svcapi` domain (C07): what the service publishes when driven through its
own API — `With`/`Resource` on a resource id (with or without query part) followed by an event,
`TokenEvent(WithID)`, `TokenReset`, `Reset`.  Model: `Model/SvcApi.lean`.  Specification: every
publication has a documented subject that is a valid NATS publish subject, events are on the
resource that was named, and the system events carry what the protocol asks for. -/
namespace GoRes.Driver.SvcApi
open GoRes GoRes.Wire GoRes.SvcApi

def encPub (p : Pub) : String := "P@" ++ encField p.subj ++ "@" ++ encField p.payload

def encOut : Out → String
  | .err => "err"
  | .panic => "panic -"
  | .pubs [] => "-"
  | .pubs l => ";".intercalate (l.map encPub)
  | .info n qy => "- name=" ++ encField n ++ " query=" ++ encField qy

def parseAct (act : Str) : Option Act :=
  let a := Str.show act
  if sstarts a "custom:" then some (.custom (act.drop 7))
  else if a = "change" then some .change else if a = "reset" then some .reset
  else if a = "reaccess" then some .reaccess else if a = "create" then some .create
  else if a = "delete" then some .delete else if a = "query" then some .query
  else if a = "resource" then some .resource else none

def withOpS (rid act : Str) : String := match parseAct act with
  | some a => encOut (withOp patterns rid a)
  | none => "bad-op"

def tokenResetS (subj : Str) (tids : List Str) : String := encOut (tokenReset subj tids)

def tokenEventS (cid tid tok : Str) : String :=
  encOut (tokenEvent cid (if tid = str "-" then [] else tid)
    (if tok = str "unmarshalable" then none else some (if tok = str "nil" then str "null" else tok)))

def sresetS (rs as : List Str) : String := encOut (sreset rs as)

/-- a resource pattern as `system.reset` may list it: tokens, `*`, a final `>` -/
def validResetPattern (s : Str) : Bool :=
  let toks := splitDots s
  !s.isEmpty && (toks.zipIdx.all fun (t, i) => validToken t || t = [42] || (t = [62] && i + 1 = toks.length))

def parsePubs (impl : String) : Option (List (Str × Str)) :=
  let body := if sstarts impl "panic " then sdrop 6 impl else impl
  let body := (body.splitOn " ").headD ""
  if body = "-" ∨ body = "" then some [] else
  (body.splitOn ";").mapM fun (e : String) => match e.splitOn "@" with
    | ["P", s, p] => do pure ((← decField s), (← decField p))
    | _ => none

def strArray (j : Option Json.J) : Option (List Str) :=
  match j with
  | some (.arr items) => items.mapM (fun x => match x with | .str s => some s | _ => none)
  | _ => none

/-- is a publication conformant, given the resource name the caller named (if any)? -/
def conformant (expectR : Option Str) (subj payload : Str) : Option String :=
  let toks := splitDots subj
  if !natsSubject subj then some "invalid-publish-subject"
  else match toks with
  | ev :: rest =>
    if ev = str "event" then
      let rn := joinDots rest.dropLast
      if rest.length < 2 then some "event-subject-without-resource"
      else if !validName rn then some "event-on-an-invalid-resource-name"
      else if expectR.isSome ∧ expectR ≠ some rn then some "event-on-a-resource-other-than-the-one-named"
      else none
    else if subj = str "system.reset" then
      match Json.parse payload with
      | some j =>
        let rs := j.get? "resources"
        let as := j.get? "access"
        if !j.isObj ∨ (rs.isNone ∧ as.isNone) then some "reset-without-resources-or-access"
        else
          let l := ((strArray rs).getD []) ++ ((strArray as).getD [])
          if (rs.isSome ∧ (strArray rs).isNone) ∨ (as.isSome ∧ (strArray as).isNone) then some "reset-lists-not-string-arrays"
          else if expectR.isSome ∧ !l.all validResetPattern then some "reset-names-an-invalid-resource-pattern"
          else none
      | none => some "reset-payload-not-json"
    else if subj = str "system.tokenReset" then
      match Json.parse payload with
      | some j => (match j.get? "subject", strArray (j.get? "tids") with
          | some (.str s), some tids =>
            if !natsSubject s then some "tokenReset-subject-is-not-a-concrete-subject"
            else if tids.isEmpty then some "tokenReset-without-token-ids" else none
          | _, _ => some "tokenReset-without-subject-and-tids")
      | none => some "tokenReset-payload-not-json"
    else if ev = str "conn" then
      match rest with
      | [_, t] => if t = str "token" then
          (match (Json.parse payload).bind (·.get? "token") with | some _ => none | none => some "token-event-without-token")
        else some "unknown-conn-subject"
      | _ => some "unknown-conn-subject"
    else some "undocumented-subject"
  | [] => some "empty-subject"

def judge (expectR : Option Str) (impl : String) : String :=
  if impl.isEmpty then "-" else
  match parsePubs impl with
  | none => if impl = "err" ∨ impl = "hang" then "?ok" else "?viol:unparsable-outcome"
  | some pubs =>
    match pubs.findSome? (fun (s, p) => (conformant expectR s p).map (· ++ ":" ++ Str.show s)) with
    | some why => "?viol:" ++ why
    | none => "?ok"

def num (s : Str) : Nat := (Str.show s).toNat!

def run (args : List Str) (impl : String) : String × String × String :=
  match args with
  | [c] => if c = str "reset" ∨ c = str "start" then ("ok", "-", "triv-" ++ Str.show c) else ("bad-op", "-", "bad")
  | c :: rest =>
    if c = str "with" then
      match rest with
      | [rid, act] =>
      let m := withOpS rid act
      let (rname, _) := parseRID rid
      -- only valid resource ids are in scope of the specification
      let spec := if Pattern.isValidRID rid then judge (some rname) impl else "-"
      let kind := if m = "err" then "err" else if sstarts m "panic" then "panic" else Str.show (act.takeWhile (· ≠ 58))
      (m, spec, "with-" ++ kind ++ (if rid.contains 63 then "-query" else ""))
      | _ => ("bad-op", "-", "bad")
    else if c = str "withls" then
      -- the listeners of the resource's pattern hear of an event made through With exactly as they do of
      -- one made from a request handler: after it was published, once, under its name; events that are not
      -- resource events (reaccess, reset, query) and failed calls notify nobody
      match rest with
      | [rid, act] =>
        let (rname, _) := parseRID rid
        let listened := [b!"svc.model.$id", b!"svc.static"].any (fun p => Pattern.matches p rname)
        let o := match parseAct act with
          | none => "bad-op"
          | some a => match withOp patterns rid a with
            | .err => "err"
            | .panic => "panic ls=-"
            | .pubs _ =>
              let name : Option Str := match a with
                | .custom n => some n | .change => some b!"change" | .create => some b!"create" | .delete => some b!"delete"
                | _ => none
              (match name with
               | some n => if listened then "ls=" ++ Str.show n else "ls=-"
               | none => "ls=-")
            | .info _ _ => "ls=-"
        (o, if Pattern.isValidRID rid then o else "-", "withls-" ++ (if sstarts o "ls=" ∧ o ≠ "ls=-" then "heard" else "silent"))
      | _ => ("bad-op", "-", "bad")
    else if c = str "tokenreset" then
      match rest with
      | subj :: k :: tids =>
        let m := tokenResetS subj (tids.take (num k))
        (m, judge none impl, "tokenreset-" ++ (if sstarts m "panic" then "panic" else if m = "-" then "none" else "pub"))
      | _ => ("bad-op", "-", "bad")
    else if c = str "tokenevent" then
      match rest with
      | [cid, tid, tok] =>
        let m := tokenEventS cid tid tok
        (m, judge none impl, "tokenevent-" ++ (if sstarts m "panic" then "panic" else if m = "-" then "none" else "pub"))
      | _ => ("bad-op", "-", "bad")
    else if c = str "sreset" then
      match rest with
      | k :: r =>
        let rs := r.take (num k)
        match r.drop (num k) with
        | k2 :: r2 =>
          let m := sresetS rs (r2.take (num k2))
          (m, judge none impl, "sreset-" ++ (if m = "-" then "none" else "pub"))
        | _ => ("bad-op", "-", "bad")
      | _ => ("bad-op", "-", "bad")
    else ("bad-op", "-", "bad")
  | _ => ("bad-op", "-", "bad")

end GoRes.Driver.SvcApi
