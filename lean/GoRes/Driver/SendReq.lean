import GoRes.Model.SendReq
import GoRes.Model.Codec
import GoRes.Driver.Wire
/-! Driver for the `sendreq` domain (C19).
`send MARSHAL SUBSCRIBE PUBLISH TIMEOUT n t1 msg1 … tn msgn` (times in ms, ascending). -/
namespace GoRes.Driver.SendReq
open GoRes GoRes.Wire GoRes.SendReq

def int (s : Str) : Int := (Str.show s).toInt!
def num (s : Str) : Nat := (Str.show s).toNat!

def pairs : List Str → List (Int × Str)
  | t :: m :: r => (int t, m) :: pairs r
  | _ => []

def encOutcome : Outcome → String
  | .internalError => "internal"
  | .timeout => "timeout"
  | .response d => "resp:" ++ encField d

def encResult (r : Result) : String :=
  encOutcome r.outcome ++ " ext=[" ++ ",".intercalate (r.extensions.map toString) ++ "] unsub=" ++
    (if r.subscribed then encBool r.unsubscribed else "-")

/-- the specification, written against the property's wording: the first message that is not a
pre-response and arrives before the current deadline is returned; each timeout pre-response
restarts the deadline with the announced duration -/
def specOutcome (timeout : Int) (hist : List (Int × Str)) : Outcome × List Int :=
  let rec go (fuel : Nat) (deadline : Int) (exts : List Int) (h : List (Int × Str)) : Outcome × List Int :=
    match fuel, h with
    | 0, _ => (.timeout, exts)
    | _, [] => (.timeout, exts)
    | fuel + 1, (t, d) :: rest =>
      if t ≥ deadline then (.timeout, exts)
      else match classify d with
        | .response x => (.response x, exts)
        | .extend ms => go fuel (t + ms) (exts ++ [ms]) rest
        | .ignored => go fuel deadline exts rest
  go (hist.length + 1) timeout [] hist

/-- what the client sees of a returned message: `ParseResponse` (Model/Codec) of the bytes -/
def encClass : Outcome → String
  | .internalError => "error:system.internalError"
  | .timeout => "timeout"
  | .response d => match Codec.parseResponse (Json.parse d) with
    | .result raw => "result:" ++ Str.show raw
    | .error c => "error:" ++ Str.show c
    | .resource rid => "resource:" ++ Str.show rid

/-- the scenarios against a real service over the embedded NATS server: the setup and the inbox
history each one produces (coarse times, ms) -/
def natScenario (name : String) : Option (List (Setup × List (Int × Str)) × Nat) :=
  let ok : Setup × List (Int × Str) := (⟨true, true, true, 1000⟩, [(5, str "{\"result\":{\"v\":1}}")])
  let silent (to : Int) : Setup × List (Int × Str) := (⟨true, true, true, to⟩, [])
  let pubfail : Setup × List (Int × Str) := (⟨true, true, false, 1000⟩, [])
  match name with
  | "resp" => some ([ok], 1)
  | "pre" => some ([(⟨true, true, true, 150⟩, [(5, str "timeout:\"600\""), (255, str "{\"result\":{\"v\":2}}")])], 1)
  | "silent" => some ([silent 100], 1)
  | "slow" => some ([(⟨true, true, true, 100⟩, [(300, str "{\"result\":null}")])], 1)
  | "precb" => some ([(⟨true, true, true, 300⟩, [(5, str "timeout:\"800\""), (6, str "{\"result\":\"done\"}")])], 1)
  | "pubfail" => some ([pubfail], 1)
  | "many" => some ((List.replicate 14 [ok, silent 5, pubfail]).flatten, 3)
  | _ => none

def runNat (name : String) : String × String × String :=
  match natScenario name with
  | none => ("bad-op", "-", "bad")
  | some (reqs, shown) =>
    let rs := reqs.map fun (su, h) => sendRequest su h
    -- subscriptions left on the connection: those made and not released
    let left := (rs.filter fun r => r.subscribed && !r.unsubscribed).length
    let classes := (rs.take shown).map (encClass ·.outcome)
    let head := if shown = 1 then classes.headD "" else String.join (classes.map (· ++ ","))
    let exts := (rs.map (·.extensions)).flatten
    let out := head ++ " ext=[" ++ ",".intercalate (exts.map toString) ++ "] subs=" ++ toString left
    (out, out, "nat-" ++ name)

def run (args : List Str) : String × String × String :=
  match args with
  | [c] =>
    -- `first_real_response`/`extension_restarts`: once an extension is taken, a response inside it is returned
    if c = str "slowcb" then ("slowcb lost-after-extension=0", "slowcb lost-after-extension=0", "slowcb")
    else if c = str "slowsilent" then
      -- `extension_restarts`: the new deadline is the time of the pre-response plus the announced
      -- duration, whatever the callbacks do afterwards; silence until then is the timeout error
      let r := sendRequest ⟨true, true, true, 5000⟩ [(0, b!"timeout:\"300\"")]
      let out := "slowsilent " ++ (match r.outcome with | .timeout => "system.timeout" | .internalError => "system.internalError" | .response _ => "response") ++
        " with-the-announced-deadline"
      (out, out, "slowsilent")
    else ("bad-op", "-", "bad")
  | [c, name] => if c = str "natsend" then runNat (Str.show name) else ("bad-op", "-", "bad")
  | c :: ma :: su :: pu :: to :: _n :: rest =>
    if c ≠ str "send" then ("bad-op", "-", "bad") else
    let setup : Setup := ⟨ma = str "T" || ma = str "R" || ma = str "N", su = str "T", pu = str "T", int to⟩
    let hist := pairs rest
    let r := sendRequest setup hist
    -- a message exactly at a deadline is a race in Go's select: no opinion
    let tie := Id.run do
      let mut dl := setup.timeout
      let mut bad := false
      for (t, d) in hist do
        if t = dl then bad := true
        if t < dl then
          match classify d with
          | .extend ms => dl := t + ms
          | .response _ => break
          | .ignored => pure ()
      return bad
    let spec := if tie then "-" else
      if !(setup.marshalOk && setup.subscribeOk && setup.publishOk) then encResult r
      else let (o, e) := specOutcome setup.timeout hist; encResult ⟨o, e, true, true⟩
    let tag := match r.outcome with
      | .internalError => "send-internal"
      | .timeout => "send-timeout" ++ (if r.extensions.isEmpty then "" else "-extended")
      | .response _ => "send-response" ++ (if r.extensions.isEmpty then "" else "-extended") ++ (if hist.length > 1 then "-multi" else "")
    (encResult r, spec, tag)
  | _ => ("bad-op", "-", "bad")

end GoRes.Driver.SendReq
