import GoRes.Model.Pattern
import GoRes.Driver.Wire
/-! Driver commands for the `pat` domain (C17). Each command returns
(model output, spec output, branch tag); spec `-` = the property says nothing
about this input (e.g. behaviour documented as undefined). -/
namespace GoRes.Driver.Pat
open GoRes GoRes.Wire GoRes.Pattern

def sortPairs (m : List (Str × Str)) : List (Str × Str) :=
  (m.toArray.qsort (fun a b => a.1 < b.1)).toList

def encMap : Option (List (Str × Str)) → String
  | none => "nomatch"
  | some m => "{" ++ ",".intercalate ((sortPairs m).map fun (k, v) => encField k ++ "=" ++ encField v) ++ "}"

def pairsOf : List Str → List (Str × Str)
  | k :: v :: r => mapSet (pairsOf r) k v   -- harness sends distinct keys
  | _ => []

/-- index of the first wildcard token, as a byte offset -/
def specIndex : List Tok → Nat → Int
  | [], _ => -1
  | .lit s :: r, off => specIndex r (off + s.length + 1)
  | _ :: _, off => off

def specRID (rid : Str) : Bool :=
  let name := rid.takeWhile (· ≠ Ch.qmark)
  !name.isEmpty && (splitDots name).all (fun t => !t.isEmpty && t.all (fun c => okChar c && c ≠ Ch.star && c ≠ Ch.gt))

def run1 (c p : Str) : Option (String × String × String) :=
  if c = str "valid" then
    let m := isValid p
    some (encBool m, encBool (parse p).isSome, if m then "valid" else "invalid")
  else if c = str "index" then
    some (toString (indexWildcard p),
     match parse p with | some ts => toString (specIndex ts 0) | none => "-",
     if indexWildcard p = -1 then "nowild" else "wild")
  else if c = str "rid" then some (encBool (isValidRID p), encBool (specRID p), if isValidRID p then "rid-ok" else "rid-bad")
  else if c = str "part" then
    some (encBool (isValidPart p),
     encBool (!p.isEmpty && p.all (fun c => okChar c && c ≠ Ch.star && c ≠ Ch.gt)),
     if isValidPart p then "part-ok" else "part-bad")
  else if c = str "path" then
    some (encBool (isValidPath p),
     encBool (match parse p with | some ts => ts.all (fun t => match t with | .lit _ => true | _ => false) | none => false),
     if isValidPath p then "path-ok" else "path-bad")
  else none

def wfTag (p s : Str) : String := if (parse p).isSome ∧ (parse s).isSome then "-wf" else "-undef"

def run2 (c p s : Str) : Option (String × String × String) :=
  if c = str "matches" then
    let m := «matches» p s
    let sp := match parse p, parse s with
      | some pt, some st => encBool (tokMatches pt st)
      | _, _ => "-"
    some (encBool m, sp, (if m then "match" else "nomatch") ++ wfTag p s)
  else if c = str "values" then
    let m := values p s
    let sp := match parse p, parse s with
      | some pt, some st => if isName st || (pt.isEmpty && st.isEmpty) then encMap (tokValues pt st []) else "-"
      | _, _ => "-"
    some (encMap m, sp, (if m.isSome then "vals" else "novals") ++ wfTag p s)
  else if c = str "law" then
    -- the property's laws evaluated on the implementation; the model evaluates the same laws
    let mt := «matches» p s
    let vs := values p s
    let back := match vs with | some m => some (replaceTags p m) | none => none
    let mb := match back with | some b => encBool («matches» b s) ++ "," ++ encBool (b == s) | none => "-,-"
    let out := encBool mt ++ "," ++ encBool vs.isSome ++ "," ++ mb
    -- names: any valid resource name — its tokens are opaque strings, also when they start with `$`
    -- (a name token `$y` is a literal of the name, not a tag)
    let rawMatch : List Tok → List Str → Bool := fun pt toks =>
      let rec go : List Tok → List Str → Bool
        | [], [] => true
        | [.full], _ :: _ => true
        | .lit l :: pr, t :: tr => l = t && go pr tr
        | .tag _ :: pr, _ :: tr => go pr tr
        | .star :: pr, _ :: tr => go pr tr
        | _, _ => false
      go pt toks
    let sp := match parse p with
      | some pt =>
        if isValidRID s && !s.contains Ch.qmark && distinctTags pt && !pt.isEmpty then
          if rawMatch pt (splitDots s) then "T,T,T," ++ encBool (!hasAnon pt) else "F,F,-,-"
        else "-"
      | none => "-"
    some (out, sp, "law-" ++ (if mt then "m" else "n") ++ wfTag p s)
  else none

def run (args : List Str) : String × String × String :=
  let bad := ("bad-op", "-", "bad")
  match args with
  | c :: p :: rest =>
    if c = str "replace" then
      let m := pairsOf rest
      let out := replaceTags p m
      let sp := match parse p with
        | some pt => if pt.isEmpty then encField [] else encField (joinDots (tokReplace (mapGet m) pt))
        | none => "-"
      (encField out, sp, if out = p then "repl-same" else "repl-changed")
    else if c = str "replacetag" || c = str "idtorid" then
      match rest with
      | [t, v] =>
        let out := replaceTag p t v
        let sp := match parse p with
          | some pt => if pt.isEmpty then encField [] else encField (joinDots (tokReplace (fun x => if t = x then some v else none) pt))
          | none => "-"
        (encField out, sp, (if c = str "idtorid" then "idt-" else "repl-") ++ (if out = p then "same" else "changed"))
      | _ => bad
    else match rest with
      | [] => (run1 c p).getD bad
      | [s] => (run2 c p s).getD bad
      | _ => bad
  | _ => bad

end GoRes.Driver.Pat
