def hello := "world"
