import GoRes.Driver.GetReq
import GoRes.Driver.Wire
import GoRes.Driver.Pat
import GoRes.Driver.Mux
import GoRes.Driver.Subs
import GoRes.Driver.Store
import GoRes.Driver.Req
import GoRes.Driver.Pool
import GoRes.Driver.Idx
import GoRes.Driver.Codec
import GoRes.Driver.ReqLoad
import GoRes.Driver.SendReq
import GoRes.Driver.QE
import GoRes.Driver.Legacy
import GoRes.Driver.Crash
import GoRes.Driver.QH
import GoRes.Driver.SvcApi
/-! `gores-driver <domain>`: one op line in, one line `model<TAB>spec<TAB>tag` out. -/
open GoRes GoRes.Wire

structure DState where
  mux : GoRes.Driver.Mux.St := {}
  store : GoRes.Driver.Store.St := {}
  pool : GoRes.Driver.Pool.VSt := {}
  idx : GoRes.Driver.Idx.St := {}
  qe : GoRes.Driver.QE.DSt := {}
  legacy : GoRes.Driver.Legacy.DSt := {}
  qh : GoRes.Driver.QH.St := {}

def stepLine (dom : String) (st : DState) (full : String) : DState × String :=
  -- a line is `op` or `op<TAB>implementation outcome`
  let (line, impl) := match full.splitOn "\t" with
    | [l] => (l, "")
    | l :: r => (l, "\t".intercalate r)
    | [] => ("", "")
  let fields := splitFields line
  match fields.mapM decField with
  | none => (st, "bad-encoding\t-\tbad")
  | some args =>
    match dom with
    | "pat" => let (m, s, t) := GoRes.Driver.Pat.run args; (st, m ++ "\t" ++ s ++ "\t" ++ t)
    | "mux" =>
      let (ms, m, s, t) := GoRes.Driver.Mux.run st.mux args
      ({ st with mux := ms }, m ++ "\t" ++ s ++ "\t" ++ t)
    | "store" =>
      let (ss, m, s, t) := GoRes.Driver.Store.run st.store args impl
      ({ st with store := ss }, m ++ "\t" ++ s ++ "\t" ++ t)
    | "req" | "req04" | "req05" | "req07" | "req08" =>
      let (m, s, t) := GoRes.Driver.Req.run dom args impl; (st, m ++ "\t" ++ s ++ "\t" ++ t)
    | "pool" | "pool01" | "pool02" | "pool03" =>
      let (ps, m, s, t) := GoRes.Driver.Pool.run dom st.pool args
      ({ st with pool := ps }, m ++ "\t" ++ s ++ "\t" ++ t)
    | "idx" | "idx11" | "idx12" | "idx13" | "idx14" =>
      let (is, m, s, t) := GoRes.Driver.Idx.run st.idx args impl
      -- each property judges only the operations it is about (the model is compared on all of them)
      let op := (fields.headD "")
      let keep := match dom with
        | "idx11" => ["create", "update", "delete", "value", "exists", "createbad", "txn", "excl", "hist", "dclose", "initrace", "untyped"].contains op
        | "idx12" => ["init", "initrace", "initbad", "rebuild", "query", "collide"].contains op
        | "idx13" => ["query"].contains op
        | "idx14" => ["flush"].contains op
        | _ => true
      ({ st with idx := is }, m ++ "\t" ++ (if keep then s else "-") ++ "\t" ++ t)
    | "codec" => let (m, s, t) := GoRes.Driver.Codec.run args; (st, m ++ "\t" ++ s ++ "\t" ++ t)
    | "getreq" => let (m, s, t) := GoRes.Driver.GetReq.run args; (st, m ++ "\t" ++ s ++ "\t" ++ t)
    | "reqload" => let (m, s, t) := GoRes.Driver.ReqLoad.run args; (st, m ++ "\t" ++ s ++ "\t" ++ t)
    | "sendreq" => let (m, s, t) := GoRes.Driver.SendReq.run args; (st, m ++ "\t" ++ s ++ "\t" ++ t)
    | "qe" =>
      let (qs, m, s, t) := GoRes.Driver.QE.run st.qe args impl
      ({ st with qe := qs }, m ++ "\t" ++ s ++ "\t" ++ t)
    | "race" =>
      -- the race domain's verdict comes from the race detector; an idle query scenario
      -- (no callback ran before Shutdown) is accepted but gives no coverage tag
      if impl == "done-idle" then (st, "done-idle\tdone-idle\trace-q-idle")
      else if line.startsWith "raceq" then (st, "done\tdone\trace-q-active")
      else (st, "done\tdone\trace-scenario")
    | "qh" =>
      let (qs, m, s, t) := GoRes.Driver.QH.run st.qh args impl
      ({ st with qh := qs }, m ++ "\t" ++ s ++ "\t" ++ t)
    | "svcapi" => let (m, s, t) := GoRes.Driver.SvcApi.run args impl; (st, m ++ "\t" ++ s ++ "\t" ++ t)
    | "legacy" =>
      let (ls, m, s, t) := GoRes.Driver.Legacy.run st.legacy args
      ({ st with legacy := ls }, m ++ "\t" ++ s ++ "\t" ++ t)
    | "crash" => let (m, s, t) := GoRes.Driver.Crash.run args impl; (st, m ++ "\t" ++ s ++ "\t" ++ t)
    | "subs" => let (m, s, t) := GoRes.Driver.Subs.run args impl; (st, m ++ "\t" ++ s ++ "\t" ++ t)
    | _ => (st, "bad-domain\t-\tbad")

partial def loop (dom : String) (h : IO.FS.Stream) (out : IO.FS.Stream) (st : DState) : IO Unit := do
  let line ← h.getLine
  if line.isEmpty then return ()
  let l := String.ofList (line.toList.filter (fun c => c != '\n' && c != '\r'))
  let (st', o) := stepLine dom st l
  out.putStrLn o
  loop dom h out st'

def main (args : List String) : IO Unit := do
  let dom := args.headD "pat"
  let out ← IO.getStdout
  loop dom (← IO.getStdin) out {}
  out.flush
