import GoRes.Model.Basic
import GoRes.Model.Pattern
import GoRes.Driver.Wire
